#!/usr/bin/env python3
"""Regenerates MANIFEST.json (kept as code so the n/a reasons and commands stay in one place)."""
import json, os
HERE = os.path.dirname(os.path.abspath(__file__))
PY = "/venv/bin/python"

NA = {
 "C01": "pure function of (text, installed reporters/courts databases): nothing to schedule, delay, crash or corrupt; its one order-sensitive corner (ties between patterns) is excluded by its own tie clause and is decided under C15",
 "C02": "offset arithmetic inside a single call on a single immutable string; no state outlives the call, so there is no interleaving, clock or fault for a simulator to own",
 "C03": "order/non-overlap of one call's result plus idempotence of a pure filter; its 'merge histories' are sequences of pure calls on a caller-owned list with no concurrency, clock or I/O in them",
 "C04": "totality over strings x option values; every known failure is a deterministic function of the input string (input generation, not simulation)",
 "C05": "resolution is a pure left fold over the citation list with local state only; documents and reference interleavings are inputs, not schedules",
 "C06": "structural laws of the same pure fold; its quantifier prescribes exhaustive enumeration of bounded sequences, which is model checking, not this family",
 "C07": "same pure fold; 'never guesses' is a statement about every input list, with no schedule, clock or fault in it",
 "C08": "same pure fold; a prefix of the argument is not a crash point because nothing persists across calls that a restart could observe",
 "C09": "pure function of (plain text, spans, source, mode, engine); both diff engines are deterministic and run without a time limit (timelimit=0), so not even a clock",
 "C10": "same pure function; exact placement under a forced alignment is an input-space oracle",
 "C11": "same pure function with lxml as a stateless judge",
 "C12": "the token stream of one call on one string; no shared state, time or I/O",
 "C13": "a regular-language inclusion per extractor plus input-driven differential runs; its only schedule-dependent failure mode (tie order under set iteration) is exactly what C15 decides",
 "C16": "algebra of == and hash over the reporters database; the hashes are sha256-based, not hash()-randomised (that fact is observed under C15)",
 "C17": "provenance of metadata inside one call's input text; pure",
 "C18": "the calendar year enters only as the upper end of the accepted range (read at import) and as one term of includes_year common to all candidates; the statement constrains that bound in one direction only, so no forward clock schedule can flip its truth; the rest is pure",
 "C19": "pure function of the markup document; both offset translators are rebuilt inside each call",
 "C20": "pure string -> string cleaners and one lxml parse",
}

def main():
    checks = []
    checks.append({
        "property_id": "C15",
        "quick_cmd": f"{PY} /verif/vcheck.py C15 --tier quick",
        "thorough_cmd": f"{PY} /verif/vcheck.py C15 --tier thorough",
        "evidence_file": "/verif/evidence/C15.json",
        "replay_cmd_template": f"{PY} /verif/vcheck.py C15 --replay {{path}}",
        "engine": "eyecite-dsim",
        "level_claimed": {
            "category": "exploration",
            "text": "Seeded search over thread interleavings (baton-passed real threads pre-empted at sys.settrace line events inside eyecite, scheduler-aware locks), call histories, cancellations, set-iteration orders and fresh interpreters with different PYTHONHASHSEED / locale / time zone; stack exhaustion (calls made with 1..139 free frames: a call that returns must return the function's value), capacities of module-level caches shrunk to 1 and 2 where the tree has such caches, scheduler-aware Lock/RLock/Event/Condition; systematic single-pre-emption and single-cancellation sweeps at the first (thorough: and last) execution of every source line of a call, double-pre-emption samples, bytecode-granularity sweeps in the thorough tier; every key re-evaluated alone in a fresh child. Oracle: get_citations is a function (one outcome per (text, options) key in every context), inputs and earlier results are never modified, no schedule deadlocks. Sampling, not proof; every violation is minimised and replays exactly.",
            "design_ref": "DESIGN.md section 5"
        },
        "level_note": "Trusted: CPython trace hooks (pre-emption at line granularity inside eyecite frames only), the pinned calendar, reporters-db/courts-db as installed. Set-order-shim disagreements are reported only after confirmation under real hash seeds.",
        "technique": "deterministic simulation: seeded baton thread scheduler + cancellation injection + set-order/hash-seed contexts, purity oracle against a (text,options)->outcome map"
    })
    if os.path.exists(os.path.join(HERE, "c14.py")):
        checks.append({
            "property_id": "C14",
            "quick_cmd": f"{PY} /verif/vcheck.py C14 --tier quick",
            "thorough_cmd": f"{PY} /verif/vcheck.py C14 --tier thorough",
            "evidence_file": "/verif/evidence/C14.json",
            "replay_cmd_template": f"{PY} /verif/vcheck.py C14 --replay {{path}}",
            "engine": "eyecite-dsim",
            "level_claimed": {
                "category": "fault_enumeration",
                "text": "Crash/restart and storage-fault simulation of the Hyperscan cache path: process lifetimes in forked children against one cache directory, crash plans at every intercepted storage operation and write-chunk boundary, ENOSPC, virtual time with clock skew and moved file timestamps, concurrent starts (one or two extractor lists) released one storage operation at a time, operating-system errors (EIO, EACCES, EMFILE, EROFS, EINTR) at each of the first storage operations, read-only directories, entries that are directories or broken/looping/moved links, changes of the directory in the middle of a lifetime, caller-chosen lists whose cache keys collide under non-injective encodings, documents of 70 kB to 1.3 MB with a multi-byte character across every fixed byte offset; the complete grid of truncation-length classes x header-byte flips x foreign header values x whole-file faults x foreign/permuted/flag-toggled databases x crash points x damaged side files applied to a freshly written cache is enumerated exhaustively in every tier, seeded sequences of further faults around it; after every lifetime the Hyperscan-vs-reference differential on generated legal text with multi-byte neighbours (plus an enumeration of every extractor with a non-ASCII, {,n} or flagged pattern) is the read that checks the state.",
                "design_ref": "DESIGN.md section 4"
            },
            "level_note": "Trusted: libhyperscan's own determinism, the kernel filesystem under /dev/shm, the pure-Python Tokenizer as reference model. Power-loss effects are modelled as file transformations between lifetimes.",
            "technique": "deterministic simulation: seeded crash/restart + storage fault injection (exhaustive fault-class grid) with a differential oracle against the reference tokenizer"
        })
    else:
        NA_tmp = dict(NA)
    na = [{"property_id": k, "reason": v} for k, v in sorted(NA.items())]
    if not os.path.exists(os.path.join(HERE, "c14.py")):
        na.append({"property_id": "C14", "reason": "claimed by DESIGN.md section 4; its check is still under construction in this commit and is therefore not registered yet"})
        na.sort(key=lambda d: d["property_id"])
    m = {
        "version": 1,
        "setup_cmd": f"{PY} /verif/vcheck.py setup",
        "hooks": {
            "guard": "EYECITE_VERIF",
            "enable": "no source hooks are needed: every seam (hash seed, set order via module globals, sys.settrace, io/os wrappers, datetime pin) is applied from outside the package; eyecite is imported from /repo's working tree on every invocation",
            "baseline_off_cmd": "cd /repo && /venv/bin/python -m pytest -ra -q -p no:cacheprovider --timeout=900 --continue-on-collection-errors",
            "source_commits": [],
            "add_only": True
        },
        "engines": [{
            "name": "eyecite-dsim",
            "path": "/verif/vcheck.py",
            "serves_properties": [c["property_id"] for c in checks],
            "kind_free_text": "deterministic simulation with fault injection: fork-per-run from a pristine parent, seeded PRNG streams, baton thread scheduler, storage/crash fault injector, ddmin minimiser, replay files"
        }],
        "checks": checks,
        "not_applicable": na,
        "notes": "See DESIGN.md. Exit codes: 0 held, 1 VIOLATION, 2 harness error (never a verdict). Known findings: /verif/known_findings.json."
    }
    with open(os.path.join(HERE, "MANIFEST.json"), "w") as f:
        json.dump(m, f, indent=1)
        f.write("\n")

if __name__ == "__main__":
    main()
