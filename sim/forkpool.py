"""Run every simulated execution in a freshly forked child of the pristine parent.

The orchestrator never calls into the code under test; it only forks.  A run is
therefore a pure function of (job, code, installed data): which slot executes
it and how many slots there are cannot matter.  Results are handed to the
consumer in job order, whatever order the children finish in.

Harness outcomes are kept apart from verdicts: a child that times out, dies or
raises in harness code yields a dict with the key "_harness".
"""
import faulthandler
import os
import pickle
import select
import signal
import sys
import time
import traceback


def _child(fn, job, wfd, timeout):
    # Runs in the forked child.  Never returns.
    try:
        signal.signal(signal.SIGINT, signal.SIG_DFL)
        if timeout:
            try:
                faulthandler.dump_traceback_later(max(1.0, timeout - 2.0), exit=False)
            except Exception:
                pass
        try:
            res = fn(job)
        except BaseException:  # harness error inside the child
            res = {"_harness": "exception", "tb": traceback.format_exc()}
        try:
            data = pickle.dumps(res, protocol=pickle.HIGHEST_PROTOCOL)
        except BaseException:
            data = pickle.dumps(
                {"_harness": "unpicklable", "tb": traceback.format_exc()}
            )
        view = memoryview(data)
        while view:
            n = os.write(wfd, view)
            view = view[n:]
        os.close(wfd)
    finally:
        try:
            sys.stdout.flush()
            sys.stderr.flush()
        except Exception:
            pass
        os._exit(0)


class _Slot:
    __slots__ = ("pid", "rfd", "buf", "idx", "job", "t0")


def fork_call(fn, job, timeout=120.0):
    """Run fn(job) in one forked child and return its result."""
    out = []
    run_jobs([job], fn, workers=1, timeout=timeout,
             on_result=lambda i, j, r: out.append(r))
    return out[0]


def run_jobs(jobs, fn, workers, timeout, on_result, deadline=None, stop=None):
    """jobs: iterable of picklable job descriptions.  fn(job) runs in a child.
    on_result(index, job, result) is called in job order.
    deadline: absolute time.monotonic() after which no new job is started.
    stop(): optional callable; when it returns True no new job is started.
    Returns the number of jobs started."""
    it = iter(enumerate(jobs))
    slots = {}
    pending = {}
    next_deliver = 0
    started = 0
    exhausted = False

    def deliver():
        nonlocal next_deliver
        while next_deliver in pending:
            job, res = pending.pop(next_deliver)
            on_result(next_deliver, job, res)
            next_deliver += 1

    try:
        while True:
            while (not exhausted and len(slots) < workers
                   and len(pending) < 4096):
                if deadline is not None and time.monotonic() > deadline:
                    exhausted = True
                    break
                if stop is not None and stop():
                    exhausted = True
                    break
                try:
                    idx, job = next(it)
                except StopIteration:
                    exhausted = True
                    break
                rfd, wfd = os.pipe()
                sys.stdout.flush()
                sys.stderr.flush()
                pid = os.fork()
                if pid == 0:
                    os.close(rfd)
                    for s in slots.values():
                        try:
                            os.close(s.rfd)
                        except OSError:
                            pass
                    _child(fn, job, wfd, timeout)
                os.close(wfd)
                os.set_blocking(rfd, False)
                s = _Slot()
                s.pid, s.rfd, s.buf, s.idx, s.job = pid, rfd, [], idx, job
                s.t0 = time.monotonic()
                slots[rfd] = s
                started += 1
            if not slots:
                if exhausted:
                    break
                continue
            ready, _, _ = select.select(list(slots), [], [], 0.25)
            now = time.monotonic()
            for rfd in ready:
                s = slots[rfd]
                try:
                    chunk = os.read(rfd, 1 << 20)
                except BlockingIOError:
                    continue
                if chunk:
                    s.buf.append(chunk)
                    continue
                # EOF: child finished (or died)
                os.close(rfd)
                del slots[rfd]
                _, status = os.waitpid(s.pid, 0)
                data = b"".join(s.buf)
                if data:
                    try:
                        res = pickle.loads(data)
                    except Exception:
                        res = {"_harness": "garbled", "status": status}
                else:
                    res = {"_harness": "died", "status": status}
                pending[s.idx] = (s.job, res)
            if timeout:
                for rfd in list(slots):
                    s = slots[rfd]
                    if now - s.t0 > timeout:
                        _kill_tree(s.pid)
                        os.close(rfd)
                        del slots[rfd]
                        try:
                            os.waitpid(s.pid, 0)
                        except ChildProcessError:
                            pass
                        pending[s.idx] = (s.job, {"_harness": "timeout",
                                                  "after_s": round(now - s.t0, 1)})
            deliver()
        deliver()
    finally:
        for s in slots.values():
            _kill_tree(s.pid)
            try:
                os.close(s.rfd)
            except OSError:
                pass
            try:
                os.waitpid(s.pid, 0)
            except ChildProcessError:
                pass
    return started


def _kill_tree(pid):
    """Kill a child and (best effort) its own children (C14 lifetimes)."""
    try:
        out = open(f"/proc/{pid}/task/{pid}/children").read().split()
    except OSError:
        out = []
    for c in out:
        try:
            _kill_tree(int(c))
        except ValueError:
            pass
    try:
        os.kill(pid, signal.SIGKILL)
    except ProcessLookupError:
        pass
