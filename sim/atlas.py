"""Atlas of citation fragments, built from the *current* tree on every check.

For every reporter/law/journal string known to eyecite (EDITIONS_LOOKUP), every
reporters-db example and a family of special-token collisions, record which
extractors produce a candidate token on the fragment and whether two
candidates share a span ("tie": 2 = groups/kind differ so the tokens cannot be
merged, 1 = they merge and only the edition order is at stake).

Discovery calls into the code under test, so it runs in forked children
(chunks in parallel); the orchestrator only receives plain data.
"""
from sim import forkpool

SPECIAL_WORDS = ["supra", "Supra", "id.", "Id.", "ibid.", "Ibid.", "see", "See",
                 "v.", "citing", "re", "aff'd", "denied"]
SPECIAL_GLUE = [",§,", "§", ",§", "§,", ".§", "(§)", "§§", "-§-", "§5", "¶§"]


def candidate_fragments():
    """Plain data only (reads reporters_db tables; calls nothing in eyecite)."""
    from eyecite.tokenizers import EDITIONS_LOOKUP
    from reporters_db import JOURNALS, LAWS, REPORTERS

    frags = []
    for s in sorted(EDITIONS_LOOKUP):
        frags.append({"t": f"1 {s} 1", "rep": s, "form": "full"})
        frags.append({"t": f"1 {s} at 1", "rep": s, "form": "short"})
    seen = set()
    for src in (REPORTERS, LAWS, JOURNALS):
        for key in sorted(src):
            for cluster in src[key]:
                for ex in cluster.get("examples", []) or []:
                    if ex not in seen:
                        seen.add(ex)
                        frags.append({"t": ex, "rep": key, "form": "example"})
    for w in SPECIAL_WORDS:
        for g in SPECIAL_GLUE:
            for t in (w + g, g + w, w + " " + g, g + " " + w, w + g + w):
                frags.append({"t": t, "rep": None, "form": "special"})
    return frags


def _discover_chunk(frags):
    from eyecite.models import CitationToken
    from eyecite.tokenizers import EXTRACTORS, default_tokenizer

    index = {id(e): i for i, e in enumerate(EXTRACTORS)}
    out = []
    for f in frags:
        text = f["t"]
        exts = sorted(index[id(e)] for e in default_tokenizer.get_extractors(text)
                      if id(e) in index)
        by_span = {}
        hit = []
        src = set()
        for i in exts:
            e = EXTRACTORS[i]
            any_hit = False
            for m in e.get_matches(text):
                tok = e.get_token(m)
                any_hit = True
                by_span.setdefault((tok.start, tok.end), []).append(tok)
                if isinstance(tok, CitationToken):
                    for ed in tuple(tok.exact_editions) + tuple(tok.variation_editions):
                        src.add(ed.reporter.source)
            if any_hit:
                hit.append(i)
        tie = 0
        for toks in by_span.values():
            if len(toks) < 2:
                continue
            first = toks[0]
            mergeable = all(
                type(t) is type(first) and t.groups == first.groups
                and getattr(t, "short", None) == getattr(first, "short", None)
                for t in toks[1:]
            )
            tie = max(tie, 1 if mergeable else 2)
        g = dict(f)
        g["x"] = hit
        g["tie"] = tie
        g["src"] = sorted(src)
        g["ntok"] = sum(len(v) for v in by_span.values())
        g["ned"] = max([len(tuple(t.exact_editions) + tuple(t.variation_editions))
                        for v in by_span.values() for t in v if isinstance(t, CitationToken)] or [0])
        out.append(g)
    return out


def build(workers=16, timeout=300):
    frags = candidate_fragments()
    n = max(1, min(workers, 16))
    size = (len(frags) + n * 4 - 1) // (n * 4)
    chunks = [frags[i:i + size] for i in range(0, len(frags), size)]
    res = [None] * len(chunks)

    def got(i, job, r):
        if isinstance(r, dict) and "_harness" in r:
            raise RuntimeError(f"atlas discovery failed: {r}")
        res[i] = r

    forkpool.run_jobs(chunks, _discover_chunk, workers=n, timeout=timeout, on_result=got)
    atlas = [g for chunk in res for g in chunk]
    return atlas


def summary(atlas):
    return {
        "fragments": len(atlas),
        "matching": sum(1 for g in atlas if g["x"]),
        "unmergeable_ties": sum(1 for g in atlas if g["tie"] == 2),
        "mergeable_ties": sum(1 for g in atlas if g["tie"] == 1),
    }
