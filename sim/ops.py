"""Operations of the C15 workload, shared by simulated children and by the
fresh-interpreter hash contexts.

An operation is a plain dict.  Judged operations (H1, H2) have a *key* -- the
argument of the function being observed -- and an *outcome* -- its serialised
value or ("raised", ExceptionType).
"""
from sim import ser

SPECIAL_IDX_CACHE = {}


def tab_to_space(text):
    """A caller-supplied cleaning callable (clean_steps may hold callables)."""
    return text.replace("\t", " ")


CALLABLES = {"@tab_to_space": tab_to_space}


def make_replace(old, new):
    """Closures from one factory: different callables with one __qualname__."""

    def replace(text):
        return text.replace(old, new)

    return replace


def _callable(name):
    if name in CALLABLES:
        return CALLABLES[name]
    if isinstance(name, str) and name.startswith("@rep:"):
        _, old, new = name.split(":", 2)
        return make_replace(old, new)
    return name


def clean_list(names):
    """clean_steps as the caller passes them: names, and callables for '@...'
    ('@rep:<old>:<new>' is a fresh closure on every call)."""
    if names is None:
        return None
    return [_callable(n) for n in names]


def op_key(op):
    k = op["op"]
    if k == "H1":
        return ("H1", op.get("text", ""), bool(op.get("ra")), op.get("markup"),
                tuple(op["clean"]) if op.get("clean") is not None else None)
    if k == "H2":
        return ("H2", op["tok"], op.get("text", ""), tuple(op.get("ext", ())))
    return None


def fresh_str(s):
    """A new str object with the same value: callers' texts come and go, so an
    identity-keyed cache inside the library must meet re-used addresses."""
    if s is None or len(s) < 2:
        return s
    return (s + " ")[:-1]


def h1_call(op, clean_steps):
    from eyecite import get_citations

    kw = {}
    if op.get("ra"):
        kw["remove_ambiguous"] = True
    if op.get("markup") is not None:
        kw["markup_text"] = fresh_str(op["markup"])
    if clean_steps is not None:
        kw["clean_steps"] = clean_steps
    if op.get("markup") is not None and not op.get("text"):
        return get_citations(**kw)
    return get_citations(fresh_str(op.get("text", "")), **kw)


def special_indices():
    """Indices of the non-citation extractors (id., supra, paragraph, stop
    words, section)."""
    from eyecite.models import CitationToken
    from eyecite.tokenizers import EXTRACTORS

    return [i for i, e in enumerate(EXTRACTORS)
            if getattr(e.constructor, "__self__", None) is not CitationToken]


def h2_tokenizer(op):
    from eyecite.tokenizers import (
        EXTRACTORS,
        AhocorasickTokenizer,
        HyperscanTokenizer,
        Tokenizer,
    )

    if op["tok"] == "ac":
        # another instance of the default tokenizer class (shares the EXTRACTORS
        # objects), with the default list or with a caller-chosen one
        if op.get("ext"):
            idx = sorted(set(list(op["ext"]) + special_indices()), reverse=True)
            exts = [EXTRACTORS[i] for i in idx if 0 <= i < len(EXTRACTORS)]
            return AhocorasickTokenizer(extractors=exts), exts
        t = AhocorasickTokenizer()
        return t, t.extractors
    idx = sorted(set(list(op.get("ext", ())) + special_indices()))
    exts = [EXTRACTORS[i] for i in idx if 0 <= i < len(EXTRACTORS)]
    if op["tok"] == "hs":
        return HyperscanTokenizer(extractors=exts, cache_dir=None), exts
    return Tokenizer(extractors=exts), exts


def eval_judged(op):
    """Evaluate a judged operation in isolation; returns (outcome, raw result).
    Used for baselines and in hash contexts (no tracing, no threads)."""
    try:
        if op["op"] == "H1":
            clean = clean_list(op.get("clean"))
            res = h1_call(op, clean)
        else:
            from eyecite import get_citations

            tok, _ = h2_tokenizer(op)
            res = get_citations(fresh_str(op.get("text", "")), tokenizer=tok)
        return ser.citations(res), res
    except Exception as e:  # the function's value at this argument is "raises E"
        return ("raised", type(e).__name__), None
