"""Baton-passing thread scheduler.

Real CPython threads, but exactly one of them is ever runnable: all others are
parked on their own lock.  sys.settrace line events inside frames of the code
under test are the pre-emption points; at each one the scheduler (not the OS,
not the GIL) decides whether the running thread keeps the baton.  Decisions are
either drawn from the run's `sched` PRNG stream (generation) or looked up in an
explicit table (replay / minimisation).  They are keyed by
(thread, op index, line-event count inside that op), so that deleting an
unrelated operation does not invalidate the rest of a recorded schedule.

Cancellation is one more decision kind: SimCancelled (a BaseException) is
raised inside the running thread at that line event -- what a signal-based
per-document timeout or KeyboardInterrupt does.
"""
import _thread
import math
import sys
import threading
import zlib

from sim import simlock

_MASK = (1 << 64) - 1

# check-then-act windows (DESIGN 2.2): first entry of each thread is hit by a
# burst of likely pre-emptions instead of waiting for luck
WINDOW_NAMES = frozenset((
    "compiled_regex", "hyperscan_db", "get_extractors", "tokenize",
    "extract_tokens", "merge", "get_citations", "__post_init__",
))


class SimCancelled(BaseException):
    pass


class SimOverrun(BaseException):
    """Event cap exceeded: the run is inconclusive (never a verdict)."""


class Baton:
    def __init__(self, nthreads, pkg_prefix, rng=None, p_switch=0.0,
                 table=None, cancel_plan=None, max_events=400_000,
                 burst=True, record_sites=None, opcodes=False, cancel_exc=None):
        self.n = nthreads
        # what an injected failure looks like to the code: an asynchronous
        # BaseException (default) or an ordinary exception such as MemoryError,
        # which an over-broad handler inside the library may swallow
        self.cancel_exc = cancel_exc or SimCancelled
        self.pkg = pkg_prefix
        self.rng = rng
        self.p = p_switch
        self.replay = table is not None
        self.table = dict(table or {})      # (t, op, k) -> ("switch", to) | ("cancel",)
        self.exit_table = {}                # t -> to   (replay)
        self.cancel_plan = dict(cancel_plan or {})  # gen mode: t -> local event count (whole thread)
        self.max_events = max_events
        self.use_burst = burst
        # the scheduler's own locks are always real ones
        self.locks = [_thread.allocate_lock() for _ in range(nthreads)]
        for lk in self.locks:
            lk.acquire()
        self.main_lock = _thread.allocate_lock()
        self.main_lock.acquire()
        self.lock_waits = 0
        self.lock_blocked_set = set()
        self.current = None
        self.done = [False] * nthreads
        self.op_index = [-1] * nthreads     # current op of each thread
        self.op_events = [0] * nthreads     # line events inside current op
        self.thread_events = [0] * nthreads
        self.cancellable = [False] * nthreads
        self.cancel_done = [False] * nthreads
        self.burst = [0] * nthreads
        self.seen_windows = set()
        self.events = 0
        self.switches = 0
        self.h = 1469598103934665603
        self.recorded = []                  # [(t, op, k, kind, arg)]
        self.exit_recorded = []             # [(t, to)]
        self.window_hits = {}
        self.cancel_sites = []
        self._code_ids = {}
        # [(thread, op), ...] whose sites are recorded: (t, op) -> {(code id, line): [first k, last k, count, name]}
        self.record_sites = set(tuple(x) for x in record_sites) if record_sites else None
        self.sites = {}
        self.opcodes = opcodes              # pre-empt at bytecode instead of line granularity
        self._next_switch = None
        if rng is not None and self.p > 0:
            self._next_switch = self._gap()

    # -- PRNG helpers (sched stream only) ---------------------------------
    def _gap(self):
        u = self.rng.random()
        if self.p >= 1.0:
            return 1
        return 1 + int(math.log(1.0 - u) / math.log(1.0 - self.p))

    def _runnable_others(self, me):
        return [t for t in range(self.n) if t != me and not self.done[t]]

    # -- tracing ----------------------------------------------------------
    def gtrace(self, frame, event, arg):
        code = frame.f_code
        if not code.co_filename.startswith(self.pkg):
            return None
        if self.opcodes:
            frame.f_trace_opcodes = True
        if self.use_burst and code.co_name in WINDOW_NAMES:
            me = self.current
            key = (me, code.co_name)
            if key not in self.seen_windows:
                self.seen_windows.add(key)
                self.burst[me] = 4
                self.window_hits[code.co_name] = self.window_hits.get(code.co_name, 0) + 1
        return self.ltrace

    def ltrace(self, frame, event, arg):
        if self.opcodes:
            if event == "opcode":
                self.on_line(frame, frame.f_lasti)
        elif event == "line":
            self.on_line(frame, frame.f_lineno)
        return self.ltrace

    def _code_id(self, code):
        cid = self._code_ids.get(code)
        if cid is None:
            s = (code.co_filename.rsplit("/", 1)[-1] + ":" + code.co_name).encode()
            cid = zlib.crc32(s)
            self._code_ids[code] = cid
        return cid

    def on_line(self, frame, where):
        me = self.current
        self.events += 1
        self.op_events[me] += 1
        self.thread_events[me] += 1
        k = self.op_events[me]
        self.h = ((self.h * 1099511628211) ^ (self._code_id(frame.f_code) * 31 + where * 7 + me)) & _MASK
        if self.events > self.max_events:
            raise SimOverrun()
        rs = self.record_sites
        if rs is not None and (me, self.op_index[me]) in rs:
            tab = self.sites.setdefault((me, self.op_index[me]), {})
            key = (self._code_id(frame.f_code), where)
            ent = tab.get(key)
            if ent is None:
                tab[key] = [k, k, 1, frame.f_code.co_name]
            else:
                ent[1] = k
                ent[2] += 1
        if self.replay:
            d = self.table.get((me, self.op_index[me], k))
            if d is None:
                return
            if d[0] == "cancel":
                if self.cancellable[me]:
                    self._record(me, k, "cancel", None, frame)
                    raise self.cancel_exc()
                return
            to = d[1]
            if to != me and 0 <= to < self.n and not self.done[to]:
                self._record(me, k, "switch", to, frame)
                self._switch(me, to)
            return
        # generation mode
        cp = self.cancel_plan.get(me)
        if (cp is not None and not self.cancel_done[me]
                and self.thread_events[me] >= cp and self.cancellable[me]):
            self.cancel_done[me] = True
            self._record(me, k, "cancel", None, frame)
            raise self.cancel_exc()
        if self.rng is None:
            return
        do = False
        if self.burst[me] > 0:
            self.burst[me] -= 1
            do = self.rng.random() < 0.5
        if self._next_switch is not None:
            self._next_switch -= 1
            if self._next_switch <= 0:
                self._next_switch = self._gap()
                do = True
        if do:
            others = self._runnable_others(me)
            if others:
                to = others[self.rng.randrange(len(others))]
                self._record(me, k, "switch", to, frame)
                self._switch(me, to)

    def _record(self, me, k, kind, arg, frame):
        self.recorded.append((me, self.op_index[me], k, kind, arg))
        if kind == "cancel":
            self.cancel_sites.append(frame.f_code.co_name)

    def _switch(self, me, to):
        self.switches += 1
        self.h = ((self.h * 1099511628211) ^ (0x9E3779B97F4A7C15 + to)) & _MASK
        self.current = to
        self.locks[to].release()
        self.locks[me].acquire()

    def lock_blocked(self, me):
        """Called by a SimLock whose acquire would block: run somebody else.
        Deterministic choice (next runnable thread in cyclic order), so nothing
        has to be recorded for replay.  False = nobody else can run."""
        self.lock_blocked_set.add(me)
        others = self._runnable_others(me)
        free = [t for t in others if t not in self.lock_blocked_set]
        if not free:
            # every thread that could still run is itself waiting for a lock (or
            # there is none): in a real execution nobody would ever release it
            return False
        to = min(free, key=lambda t: (t - me) % self.n)
        self.lock_waits += 1
        self._switch(me, to)
        return True

    def lock_acquired(self, me):
        self.lock_blocked_set.discard(me)

    # -- thread lifecycle -------------------------------------------------
    def begin_op(self, t, op_index, cancellable):
        self.op_index[t] = op_index
        self.op_events[t] = 0
        self.cancellable[t] = cancellable

    def end_op(self, t):
        self.cancellable[t] = False

    def run(self, bodies, first=None):
        """bodies: list of callables body(t) executed by thread t under the baton."""
        threads = []
        for t in range(self.n):
            th = threading.Thread(target=self._thread_main, args=(t, bodies[t]),
                                  name=f"sim-{t}", daemon=True)
            threads.append(th)
            th.start()
        if first is None:
            first = self.rng.randrange(self.n) if (self.rng is not None and not self.replay) else 0
        self.first = first
        self.current = first
        simlock.ACTIVE = self
        try:
            self.locks[first].release()
            self.main_lock.acquire()
        finally:
            simlock.ACTIVE = None
        for th in threads:
            th.join(30)
        return self

    def _thread_main(self, t, body):
        self.locks[t].acquire()
        try:
            sys.settrace(self.gtrace)
            try:
                body(t)
            finally:
                sys.settrace(None)
        finally:
            self.done[t] = True
            others = self._runnable_others(t)
            if others:
                if self.replay:
                    to = self.exit_table.get(t)
                    if to is None or to not in others:
                        to = others[0]
                elif self.rng is not None:
                    to = others[self.rng.randrange(len(others))]
                else:
                    to = others[0]
                self.exit_recorded.append((t, to))
                self.current = to
                self.locks[to].release()
            else:
                self.main_lock.release()

    def retrace(self):
        """Re-install the trace function after it raised (CPython unsets it)."""
        sys.settrace(self.gtrace)

    def digest(self):
        return "%016x" % self.h
