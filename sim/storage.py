"""Storage seam: the simulator owns every file-system operation the code under
test performs below one directory.

Python-level wrappers around io.open / builtins.open / os.* / fcntl.* count
operations, split writes into chunks (each chunk is flushed to the kernel so a
simulated crash leaves exactly the bytes written so far), kill the process at a
planned point (os._exit: no finally clause runs, like a real crash), fail writes
with ENOSPC after a byte budget, and -- for concurrent scenarios -- park the
process on a pipe before every operation and every chunk until the scheduler
releases it.

Only paths below `root` are touched; everything else passes through.
"""
import builtins
import errno
import io
import os

CRASH_EXIT = 77      # exit status of a lifetime killed by its own crash plan


class Seam:
    def __init__(self, root, chunk=65536, crash=None, enospc_after=None, gate=None, oserr=None,
                 readonly=None):
        self.root = os.path.realpath(root)
        self.chunk = max(1, int(chunk))
        self.crash = crash or None      # {"op": k, "when": "before"|"after"} | {"wbytes": n}
        self.enospc_after = enospc_after
        self.gate = gate                # callable(desc) -> None, may block
        self.oserr = oserr or None      # {"op": k, "errno": "EIO"}: operation k fails
        self.paused = False
        self.readonly = readonly        # "EROFS" | "EACCES" | "EPERM": every change below root fails
        self.nops = 0
        self.wbytes = 0
        self.log = []                   # (k, name, relpath, detail)
        self.installed = False
        self._orig = {}
        self.fds = {}                   # descriptors of files below root

    # -- bookkeeping ----------------------------------------------------------
    def _mine(self, path):
        if self.paused:
            return False            # the simulator's own file operations (mid-life faults)
        try:
            if isinstance(path, int):
                return False
            p = os.fspath(path)
            if isinstance(p, bytes):
                p = p.decode("utf8", "replace")
            p = os.path.abspath(p)
        except Exception:
            return False
        return p == self.root or p.startswith(self.root + os.sep)

    def _rel(self, path):
        p = os.path.abspath(os.fspath(path))
        return os.path.relpath(p, self.root)

    def _die(self):
        os._exit(CRASH_EXIT)

    def _op(self, name, path, detail=None):
        """Called before the real operation.  Returns the op number."""
        self.nops += 1
        k = self.nops
        rel = self._rel(path)
        self.log.append((k, name, rel, detail))
        if self.gate is not None:
            self.gate(("op", k, name, rel))
        c = self.crash
        if c and c.get("op") == k and c.get("when", "before") == "before":
            self._die()
        if self.readonly and self._mutates(name, path, detail):
            en = getattr(errno, self.readonly)
            self.log[-1] = (k, name, rel, "readonly-" + self.readonly)
            raise OSError(en, os.strerror(en), os.path.join(self.root, rel))
        f = self.oserr
        if f and f.get("op") == k:
            en = getattr(errno, f.get("errno", "EIO"))
            ex = OSError(en, os.strerror(en), os.path.join(self.root, rel))
            ex.injected_by_simulator = True
            self.log[-1] = (k, name, rel, "injected-" + f.get("errno", "EIO"))
            raise ex
        return k

    _MUT = {"write", "os.write", "unlink", "remove", "rename", "replace", "utime", "chmod", "truncate",
            "rmdir", "link", "symlink", "ftruncate", "chown"}

    def _mutates(self, name, path, detail):
        """Would this operation change a read-only directory tree?  (mkdir of an
        existing path fails with EEXIST first, as on a real read-only mount.)"""
        if name in self._MUT:
            return True
        if name == "open":
            return isinstance(detail, str) and any(ch in detail for ch in "wax+")
        if name == "os.open":
            return isinstance(detail, int) and bool(
                detail & (os.O_WRONLY | os.O_RDWR | os.O_CREAT | os.O_TRUNC | os.O_APPEND))
        if name in ("mkdir", "makedirs"):
            return not os.path.lexists(os.fspath(path))
        return False

    def _after(self, k):
        c = self.crash
        if c and c.get("op") == k and c.get("when") == "after":
            self._die()

    # -- wrappers -------------------------------------------------------------
    def install(self):
        if self.installed:
            return
        self.installed = True
        seam = self
        real_open = io.open
        self._orig["io.open"] = real_open
        self._orig["builtins.open"] = builtins.open

        def w_open(file, mode="r", *a, **kw):
            if isinstance(file, int) and file in seam.fds:
                # a descriptor obtained through os.open (tempfile does this)
                path = seam.fds[file]
                f = real_open(file, mode, *a, **kw)
                if any(ch in mode for ch in "wax+"):
                    return _WriteProxy(seam, f, path)
                return _ReadProxy(seam, f, path)
            if not seam._mine(file):
                return real_open(file, mode, *a, **kw)
            k = seam._op("open", file, mode)
            f = real_open(file, mode, *a, **kw)
            try:
                seam.fds[f.fileno()] = file
            except Exception:
                pass
            seam._after(k)
            if any(ch in mode for ch in "wax+"):
                return _WriteProxy(seam, f, file)
            return _ReadProxy(seam, f, file)

        io.open = w_open
        builtins.open = w_open

        def wrap_path_fn(mod, name, label=None, npaths=1):
            real = getattr(mod, name)
            self._orig[f"{mod.__name__}.{name}"] = (mod, name, real)

            def w(*a, **kw):
                paths = [x for x in a[:npaths] if not isinstance(x, int)]
                if not paths or not any(seam._mine(p) for p in paths):
                    return real(*a, **kw)
                k = seam._op(label or name, paths[0],
                             seam._rel(paths[1]) if len(paths) > 1 else None)
                try:
                    r = real(*a, **kw)
                finally:
                    pass
                seam._after(k)
                return r

            w.__name__ = name
            setattr(mod, name, w)

        for name in ("stat", "lstat", "mkdir", "unlink", "remove", "rmdir", "listdir",
                     "scandir", "truncate", "chmod", "utime", "access"):
            if hasattr(os, name):
                wrap_path_fn(os, name)
        for name in ("replace", "rename", "link", "symlink"):
            wrap_path_fn(os, name, npaths=2)

        # os.open / os.write / os.fsync / os.close on descriptors below root
        fds = self.fds
        real_os_open, real_os_write = os.open, os.write
        real_fsync, real_close = os.fsync, os.close
        self._orig["os.open"] = (os, "open", real_os_open)
        self._orig["os.write"] = (os, "write", real_os_write)
        self._orig["os.fsync"] = (os, "fsync", real_fsync)
        self._orig["os.close"] = (os, "close", real_close)

        def w_os_open(path, flags, *a, **kw):
            if not seam._mine(path):
                return real_os_open(path, flags, *a, **kw)
            k = seam._op("os.open", path, flags)
            fd = real_os_open(path, flags, *a, **kw)
            fds[fd] = path
            seam._after(k)
            return fd

        def w_os_write(fd, data):
            if fd not in fds:
                return real_os_write(fd, data)
            k = seam._op("os.write", fds[fd], len(data))
            n = seam._chunked(lambda b: real_os_write(fd, b), data, fds[fd])
            seam._after(k)
            return n

        def w_fsync(fd):
            path = fds.get(fd) if isinstance(fd, int) else None
            if path is None:
                return real_fsync(fd)
            k = seam._op("fsync", path)
            r = real_fsync(fd)
            seam._after(k)
            return r

        def w_close(fd):
            fds.pop(fd, None)
            return real_close(fd)

        os.open, os.write, os.fsync, os.close = w_os_open, w_os_write, w_fsync, w_close
        try:
            import fcntl

            for name in ("flock", "lockf"):
                real = getattr(fcntl, name)
                self._orig[f"fcntl.{name}"] = (fcntl, name, real)

                def w_lock(fd, *a, _real=real, _name=name, **kw):
                    fno = fd if isinstance(fd, int) else fd.fileno()
                    path = fds.get(fno)
                    if path is None and hasattr(fd, "_seam_path"):
                        path = fd._seam_path
                    if path is None:
                        return _real(fd, *a, **kw)
                    k = seam._op(_name, path, a[:1])
                    blocking = (a and isinstance(a[0], int)
                                and not a[0] & fcntl.LOCK_NB and not a[0] & fcntl.LOCK_UN)
                    if seam.gate is not None and blocking:
                        # under the concurrent scheduler a blocking lock becomes a
                        # retry loop that parks the process while the lock is held
                        while True:
                            try:
                                r = _real(fd, a[0] | fcntl.LOCK_NB, *a[1:], **kw)
                                break
                            except OSError as e:
                                if e.errno not in (errno.EAGAIN, errno.EACCES):
                                    raise
                                seam.gate(("blocked", k, _name, seam._rel(path)))
                    else:
                        r = _real(fd, *a, **kw)
                    seam._after(k)
                    return r

                setattr(fcntl, name, w_lock)
        except ImportError:  # pragma: no cover
            pass

    def _chunked(self, write, data, path):
        """Write data in chunks; each chunk may be the last one before a crash
        or an ENOSPC."""
        view = memoryview(bytes(data)) if not isinstance(data, (bytes, bytearray, memoryview)) else memoryview(data)
        total = 0
        n = len(view)
        while total < n:
            step = min(self.chunk, n - total)
            c = self.crash
            if c and "wbytes" in c:
                room = c["wbytes"] - self.wbytes
                if room <= 0:
                    self._die()
                step = min(step, room)
            if self.enospc_after is not None:
                room = self.enospc_after - self.wbytes
                if room <= 0:
                    raise OSError(errno.ENOSPC, "No space left on device (simulated)")
                step = min(step, room)
            if self.gate is not None:
                self.gate(("chunk", self.wbytes, step))
            write(view[total:total + step])
            total += step
            self.wbytes += step
            if c and "wbytes" in c and self.wbytes >= c["wbytes"]:
                self._die()
        return total


class _ReadProxy:
    def __init__(self, seam, f, path):
        self._seam, self._f, self._seam_path = seam, f, path

    def read(self, *a):
        k = self._seam._op("read", self._seam_path)
        r = self._f.read(*a)
        self._seam._after(k)
        return r

    def __getattr__(self, name):
        return getattr(self._f, name)

    def __enter__(self):
        self._f.__enter__()
        return self

    def __exit__(self, *a):
        self._forget()
        return self._f.__exit__(*a)

    def close(self):
        self._forget()
        return self._f.close()

    def _forget(self):
        try:
            self._seam.fds.pop(self._f.fileno(), None)
        except Exception:
            pass

    def __iter__(self):
        return iter(self._f)


class _WriteProxy(_ReadProxy):
    def write(self, data):
        seam = self._seam
        k = seam._op("write", self._seam_path, len(data))

        def w(b):
            self._f.write(b)
            self._f.flush()

        if isinstance(data, str):
            # text mode: encode boundaries are not modelled; write whole
            self._f.write(data)
            self._f.flush()
            n = len(data)
        else:
            n = seam._chunked(w, data, self._seam_path)
        seam._after(k)
        return n

    def fileno(self):
        return self._f.fileno()
