"""Scheduler-aware locks.

Under the baton only one thread runs; if it blocks on a real lock held by a
parked thread the whole run deadlocks.  Code that is made thread-safe with a
lock (a property-preserving change) must not turn the check into a hang, so
`threading.Lock` / `threading.RLock` are replaced -- before the code under test
is imported -- by wrappers that behave exactly like the real locks outside a
simulated run and, inside one, turn a blocking acquire into "try; if busy, hand
the baton to another runnable thread and try again when rescheduled".

The choice of who runs while a thread waits is deterministic (lowest-numbered
other runnable thread), so no decision needs to be recorded for replay.
"""
import threading

_real_lock = threading.Lock
_real_rlock = threading.RLock

ACTIVE = None          # the Baton of the current simulated run, if any
STATS = {"blocked_acquires": 0, "deadlocks": 0}


class SimDeadlock(BaseException):
    """Every thread that could still run waits for a lock (or a thread waits for a
    lock nobody will release): in a real execution this call would never return."""


def _sim_thread_index():
    name = threading.current_thread().name
    if name.startswith("sim-"):
        try:
            return int(name[4:])
        except ValueError:
            return None
    return None


class _SimLockBase:
    __slots__ = ("_real",)

    def acquire(self, blocking=True, timeout=-1):
        baton = ACTIVE
        if baton is None or not blocking:
            return self._real.acquire(blocking, timeout) if blocking else self._real.acquire(False)
        me = _sim_thread_index()
        if me is None or baton.current != me:
            return self._real.acquire(blocking, timeout)
        spins = 0
        while not self._real.acquire(False):
            STATS["blocked_acquires"] += 1
            spins += 1
            if spins > 100000 or not baton.lock_blocked(me):
                baton.lock_acquired(me)
                if timeout is not None and timeout >= 0:
                    return False      # the timeout expires (in virtual time)
                STATS["deadlocks"] += 1
                raise SimDeadlock()
        if spins:
            baton.lock_acquired(me)
        return True

    __enter__ = acquire

    def release(self):
        self._real.release()

    def __exit__(self, *a):
        self._real.release()

    def locked(self):
        return self._real.locked()

    def _at_fork_reinit(self):
        self._real._at_fork_reinit()

    def __repr__(self):
        return f"<Sim{self._real!r}>"


class SimLock(_SimLockBase):
    __slots__ = ()

    def __init__(self):
        self._real = _real_lock()


class SimRLock(_SimLockBase):
    __slots__ = ()

    def __init__(self):
        self._real = _real_rlock()

    def locked(self):  # RLock has no locked() before 3.14
        if self._real.acquire(False):
            self._real.release()
            return False
        return True

    def _is_owned(self):
        return self._real._is_owned()

    def _release_save(self):
        return self._real._release_save()

    def _acquire_restore(self, state):
        return self._real._acquire_restore(state)


_installed = False


def install():
    """Must run before the code under test is imported."""
    global _installed
    if _installed:
        return
    _installed = True
    threading.Lock = SimLock
    threading.RLock = SimRLock
