"""Scheduler-aware locks, events and conditions.

Under the baton only one thread runs; if it blocks on a real lock held by a
parked thread the whole run deadlocks.  Code that is made thread-safe with a
lock (a property-preserving change) must not turn the check into a hang, so
`threading.Lock` / `threading.RLock` are replaced -- before the code under test
is imported -- by wrappers that behave exactly like the real locks outside a
simulated run and, inside one, turn a blocking acquire into "try; if busy, hand
the baton to another runnable thread and try again when rescheduled".

The choice of who runs while a thread waits is deterministic (lowest-numbered
other runnable thread), so no decision needs to be recorded for replay.
"""
import threading

_real_lock = threading.Lock
_real_rlock = threading.RLock

ACTIVE = None          # the Baton of the current simulated run, if any
STATS = {"blocked_acquires": 0, "deadlocks": 0}


class SimDeadlock(BaseException):
    """Every thread that could still run waits for a lock (or a thread waits for a
    lock nobody will release): in a real execution this call would never return."""


def _sim_thread_index():
    name = threading.current_thread().name
    if name.startswith("sim-"):
        try:
            return int(name[4:])
        except ValueError:
            return None
    return None


class _SimLockBase:
    __slots__ = ("_real",)

    def acquire(self, blocking=True, timeout=-1):
        baton = ACTIVE
        if baton is None or not blocking:
            return self._real.acquire(blocking, timeout) if blocking else self._real.acquire(False)
        me = _sim_thread_index()
        if me is None or baton.current != me:
            return self._real.acquire(blocking, timeout)
        spins = 0
        while not self._real.acquire(False):
            STATS["blocked_acquires"] += 1
            spins += 1
            if spins > 100000 or not baton.lock_blocked(me):
                baton.lock_acquired(me)
                if timeout is not None and timeout >= 0:
                    return False      # the timeout expires (in virtual time)
                STATS["deadlocks"] += 1
                raise SimDeadlock()
        if spins:
            baton.lock_acquired(me)
        return True

    __enter__ = acquire

    def release(self):
        self._real.release()

    def __exit__(self, *a):
        self._real.release()

    def locked(self):
        return self._real.locked()

    def _at_fork_reinit(self):
        self._real._at_fork_reinit()

    def __repr__(self):
        return f"<Sim{self._real!r}>"


class SimLock(_SimLockBase):
    __slots__ = ()

    def __init__(self):
        self._real = _real_lock()


class SimRLock(_SimLockBase):
    __slots__ = ()

    def __init__(self):
        self._real = _real_rlock()

    def locked(self):  # RLock has no locked() before 3.14
        if self._real.acquire(False):
            self._real.release()
            return False
        return True

    def _is_owned(self):
        return self._real._is_owned()

    def _release_save(self):
        return self._real._release_save()

    def _acquire_restore(self, state):
        if ACTIVE is None or _sim_thread_index() is None:
            return self._real._acquire_restore(state)
        # under the baton: re-acquire through the yielding acquire, once per level
        count = state[0] if isinstance(state, tuple) else 1
        for _ in range(max(1, int(count))):
            self.acquire()


_real_event = threading.Event
_real_condition = threading.Condition


def _sim_wait(pred, timeout):
    """Wait, under the baton, until pred() holds: hand the baton on while it does
    not.  Returns True/False like the primitives' wait(); raises SimDeadlock when
    nobody is left who could make it true (and no timeout was given)."""
    baton = ACTIVE
    me = _sim_thread_index()
    spins = 0
    while not pred():
        STATS["blocked_acquires"] += 1
        spins += 1
        if spins > 100000 or not baton.lock_blocked(me):
            baton.lock_acquired(me)
            if timeout is not None and timeout >= 0:
                return False          # the timeout expires (in virtual time)
            STATS["deadlocks"] += 1
            raise SimDeadlock()
    if spins:
        baton.lock_acquired(me)
    return True


def _in_sim():
    baton = ACTIVE
    if baton is None:
        return False
    me = _sim_thread_index()
    return me is not None and baton.current == me


class SimEvent(_real_event):
    """threading.Event whose wait() yields the baton instead of blocking the one
    thread that is allowed to run."""

    def wait(self, timeout=None):
        if not _in_sim():
            return super().wait(timeout)
        return _sim_wait(self.is_set, timeout)


class SimCondition(_real_condition):
    """threading.Condition (also under Semaphore, Barrier, queue.Queue): wait()
    releases the lock, yields the baton until a notify happened, re-acquires.
    Every notify wakes every simulated waiter (spurious wake-ups are allowed)."""

    def __init__(self, lock=None):
        super().__init__(lock if lock is not None else SimRLock())
        self._sim_gen = 0

    def wait(self, timeout=None):
        if not _in_sim():
            return super().wait(timeout)
        if not self._is_owned():
            raise RuntimeError("cannot wait on un-acquired lock")
        gen = self._sim_gen
        saved = self._release_save()
        try:
            return _sim_wait(lambda: self._sim_gen != gen, timeout)
        finally:
            self._acquire_restore(saved)

    def notify(self, n=1):
        self._sim_gen += 1
        return super().notify(n)

    def notify_all(self):
        self._sim_gen += 1
        return super().notify_all()


_installed = False


def install():
    """Must run before the code under test is imported."""
    global _installed
    if _installed:
        return
    _installed = True
    threading.Lock = SimLock
    threading.RLock = SimRLock
    threading.Event = SimEvent
    threading.Condition = SimCondition
