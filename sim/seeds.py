"""Seed discipline: one integer decides everything.

VERIF_SEED -> root(property, tier) -> run_seed(i) -> named PRNG streams.
Adding a draw to one stream never shifts another, which is what lets the
minimiser delete steps without re-rolling the rest of a run.
"""
import hashlib
import random


def h64(*parts) -> int:
    """Stable 64-bit hash of the parts (never Python's hash())."""
    h = hashlib.blake2b(digest_size=8)
    for p in parts:
        b = p if isinstance(p, bytes) else repr(p).encode("utf8")
        h.update(len(b).to_bytes(8, "big"))
        h.update(b)
    return int.from_bytes(h.digest(), "big")


def root_seed(verif_seed: int, prop: str, tier: str) -> int:
    return h64("root", int(verif_seed), prop, tier)


def run_seed(root: int, i: int) -> int:
    return h64("run", root, i)


class Streams:
    """Named, independent PRNG streams of one run."""

    def __init__(self, seed: int):
        self.seed = seed
        self._s = {}

    def get(self, name: str) -> random.Random:
        if name not in self._s:
            self._s[name] = random.Random(h64("stream", self.seed, name))
        return self._s[name]


def digest(obj) -> str:
    """sha256 hex digest of a JSON-able / repr-able object (stable)."""
    import json

    try:
        s = json.dumps(obj, sort_keys=True, ensure_ascii=True, default=repr)
    except TypeError:
        s = repr(obj)
    return hashlib.sha256(s.encode("utf8")).hexdigest()
