"""Seeded generator of legal-looking text around atlas fragments.

Everything is drawn from the random.Random passed in; only lists are iterated.
"""

WORDS = ("the court held that this rule applies to all such claims and further "
         "noted a prior decision on point because statute requires notice before "
         "any action may proceed under section law agency order record appeal "
         "trial judge jury verdict motion brief counsel argued plainly").split()
NAMES = ["Adarand", "Smith", "Jones", "Peña", "Roe", "Wade", "Brown", "Board",
         "Lissner", "Foo", "Bar", "Nobelman", "Johnson", "Wingler", "Miller",
         "O'Brien", "McDonald", "Garcia", "Nguyen", "Twombly", "Iqbal"]
NOMINATIVE = ["Thompson", "Cooke", "Holmes", "Olcott", "Chase", "Gilmer", "Bee",
              "Deady", "Taney"]
COURTS = ["", "", "2d Cir.", "9th Cir.", "D. Mass.", "S.D.N.Y.", "Cal.", "Tex. App.",
          # abbreviations that are a prefix of several courts-db citation strings
          "Cal", "Tex", "Mass", "Wash", "Ark", "Ala", "Mich", "N.Y", "Pa", "Md",
          "Bankr. D.", "Ct. App.", "Sup. Ct."]


def ambiguous_court_prefixes(limit=2000):
    """Word-truncated prefixes of courts-db citation strings that are a prefix of
    at least two courts (plain data; nothing of eyecite is called)."""
    import re

    try:
        from courts_db import courts
    except Exception:
        return []
    norm = lambda x: re.sub(r"[^\w]", "", x).lower()
    strings = sorted({c["citation_string"] for c in courts if c.get("citation_string")})
    normed = sorted({norm(x) for x in strings})
    cands = set()
    for cs in strings:
        words = cs.split(" ")
        for k in range(1, len(words)):
            cands.add(" ".join(words[:k]))
    out = []
    for pfx in sorted(cands):
        n = norm(pfx)
        if len(n) < 2 or ")" in pfx or "(" in pfx:
            continue
        hits = 0
        for x in normed:
            if x.startswith(n) and x != n:
                hits += 1
                if hits >= 2:
                    break
        if hits >= 2:
            out.append(pfx)
    step = max(1, len(out) // limit)
    return out[::step][:limit]


_COURT_PREFIXES = None
LAW_PARENS = [" (West 1999)", " (West Supp. 2019)", " (Lexis Jun. 2018)", " (1999)",
              " (May 2, 1999)", " (McKinney 2020) (repealed)", " (Supp. 2026)", " (West 2028)"]
PARENS = ["overruling prior law", "en banc", "per curiam", "quoting Foo",
          "holding (in dicta) otherwise", "same"]
ROMANS = ["ii", "iv", "ix", "xii", "xl", "cix", "lv"]
TERMINATORS = [".", ";", ",", ")", " ", "\n", ""]

# multi-byte characters inside the domain of C14 (DESIGN 4.2): no non-ASCII
# whitespace or digits, none of the non-ASCII case variants of ASCII letters
MB_PUNCT = ["“", "”", "‘", "’", "–", "—", "§",
            "¶", "…", "•", "™", "€", "«", "»"]
MB_LETTER = ["é", "ü", "ñ", "ç", "Ö", "法", "́"]
MB_FOUR = ["\U0001F600", "\U00010348"]
# invisible format characters (category Cf): not whitespace for Python's \s, so
# still inside the domain; a byte-level pre-processing step that treats them as
# spaces would not be
MB_FORMAT = ["\u200b", "\ufeff", "\u180e", "\u2060", "\u00ad"]
MB_ALL = MB_PUNCT + MB_LETTER + MB_FOUR + MB_FORMAT


def in_c14_domain(text):
    """The statement's domain: Python's Unicode classes and Hyperscan's byte
    classes coincide."""
    for ch in text:
        o = ord(ch)
        if o < 128:
            if 0x1c <= o <= 0x1f:
                return False
            continue
        if ch.isspace() or ch.isdigit() or ch.isdecimal() or ch.isnumeric():
            return False
        if o == 0x85:
            return False
        if ch in "ſKİı":
            return False
    return True


class Gen:
    def __init__(self, rng, atlas):
        self.r = rng
        self.atlas = atlas
        self.cited = []     # party names of full citations written so far
        self.last_parties = None
        self.force_paren = False   # every full citation gets a "(court year)" parenthetical
        global _COURT_PREFIXES
        if _COURT_PREFIXES is None:
            _COURT_PREFIXES = ambiguous_court_prefixes()
        self.courts = COURTS + _COURT_PREFIXES
        self.full = [g for g in atlas if g["form"] == "full" and g["x"]]
        self.short = [g for g in atlas if g["form"] == "short" and g["x"]]
        self.examples = [g for g in atlas if g["form"] == "example" and g["x"]]
        self.special = [g for g in atlas if g["form"] == "special" and g["x"]]
        self.ties2 = [g for g in atlas if g["tie"] == 2]
        self.ties1 = [g for g in atlas if g["tie"] == 1]
        self.laws = [g for g in self.examples if "laws" in g.get("src", [])]
        self.journals = [g for g in atlas if g["x"] and "journals" in g.get("src", [])
                         and g["form"] == "full"]

    # -- atoms ----------------------------------------------------------
    def pick(self, seq):
        return seq[self.r.randrange(len(seq))]

    def words(self, n):
        return " ".join(self.pick(WORDS) for _ in range(n))

    def name(self):
        if self.r.random() < 0.12:
            return self.pick(NOMINATIVE)
        return self.pick(NAMES)

    def vol(self):
        return str(self.r.choice([1, 2, 5, 12, 99, 123, 515, 999]))

    def page(self):
        x = self.r.random()
        if x < 0.8:
            return str(self.r.choice([1, 3, 17, 200, 304, 1234]))
        if x < 0.9:
            return self.pick(ROMANS)
        return "___"

    def year(self):
        return str(self.r.choice([1789, 1850, 1901, 1954, 1995, 2012, 2024, 2026, 2027, 2028]))

    def pin(self):
        return self.pick(["4", "4-5", "12, 15", "n. 3", "*2", "¶ 7"])

    def core(self, g):
        """The core citation text of a fragment, with fresh numbers when the
        fragment is of the plain vol/reporter/page shape."""
        if g["form"] == "full":
            return f"{self.vol()} {g['rep']} {self.page()}"
        if g["form"] == "short":
            return f"{self.vol()} {g['rep']} at {self.page()}"
        t = g["t"]
        # citations to several sections / paragraphs double the sign
        if "§" in t and "§§" not in t and self.r.random() < 0.3:
            t = t.replace("§", "§§", 1)
        elif "¶" in t and "¶¶" not in t and self.r.random() < 0.2:
            t = t.replace("¶", "¶¶", 1)
        return t

    # -- citation forms -------------------------------------------------
    def cite(self, g=None):
        r = self.r
        if g is None:
            x = r.random()
            if x < 0.45 and self.full:
                g = self.pick(self.full)
            elif x < 0.6 and self.short:
                g = self.pick(self.short)
            elif x < 0.8 and self.examples:
                g = self.pick(self.examples)
            elif x < 0.9 and self.special:
                g = self.pick(self.special)
            elif self.full:
                g = self.pick(self.full)
            else:
                g = self.pick(self.atlas)
        core = self.core(g)
        form = g["form"]
        if form == "special":
            return core
        src = g.get("src") or []
        if "laws" in src and "reporters" not in src:
            # statutes: subsections, publisher/date parenthetical, comment
            s = core
            if r.random() < 0.4:
                s += self.pick(["(a)", "(a)(2)", "(b)(1)(iii)", " et seq.", "(a) and (d)"])
            if r.random() < 0.6:
                s += self.pick(LAW_PARENS)
            if r.random() < 0.2:
                s += f" ({self.pick(PARENS)})"
            return s
        if "journals" in src and "reporters" not in src:
            s = core
            if r.random() < 0.5:
                s += f", {self.pin()}"
            if r.random() < 0.6:
                s += f" ({self.year()})"
            if r.random() < 0.2:
                s += f" ({self.pick(PARENS)})"
            if r.random() < 0.3:
                s = f"{self.name()}, {self.pick(['Note', 'Comment', 'The Law of Things'])}, {s}"
            return s
        if form == "short":
            s = core
            if r.random() < 0.6:
                s = f"{self.name()}, {s}"
            if r.random() < 0.3:
                s += f" ({self.pick(PARENS)})"
            return s
        s = core
        self.last_parties = None
        if r.random() < 0.6:
            a, b = self.name(), self.name()
            if r.random() < 0.15:
                b = a           # "Smith v. Smith"
            self.cited.extend([a, b])
            self.last_parties = (a, b, g)
            s = f"{a} v. {b}, {s}"
        elif r.random() < 0.2:
            a = self.name()
            self.cited.append(a)
            s = f"In re {a}, {s}"
        if r.random() < 0.3 and self.full:
            s += f", {self.core(self.pick(self.full))}"
        if r.random() < 0.4:
            s += f", {self.pin()}"
        if r.random() < 0.6 or self.force_paren:
            court = self.pick(self.courts if (r.random() < 0.4 or self.force_paren) else COURTS)
            s += f" ({court + ' ' if court else ''}{self.year()})"
        if r.random() < 0.2:
            s += f" ({self.pick(PARENS)})"
        return s

    def follow_up(self):
        """A later mention of the case just cited in full: pin-cited reference,
        bare name in prose, supra, short form, id."""
        a, b, g = self.last_parties
        name = a if self.r.random() < 0.5 else b
        x = self.r.random()
        if x < 0.08:
            return f"{a} v. {b} at {self.pick(['3', '17', '200'])}"
        if x < 0.30:
            return f"{name} at {self.pick(['3', '17', '200'])}"
        if x < 0.55:
            return self.pick([f"the court in {name} rejected that view",
                              f"as {name} makes clear",
                              f"{name} controls here"])
        if x < 0.70:
            return f"{name}, supra, at {self.pin()}"
        if x < 0.85 and g.get("form") == "full":
            return f"{name}, {self.vol()} {g['rep']} at {self.page()}"
        return f"Id. at {self.pin()}"

    def known_name(self):
        if self.cited and self.r.random() < 0.7:
            return self.pick(self.cited)
        return self.name()

    def reference(self):
        r = self.r
        x = r.random()
        if x < 0.25:
            return f"{self.known_name()}, supra, at {self.pin()}"
        if x < 0.40:
            return f"{self.known_name()} at {self.pick(['3', '17', '200'])}"
        if x < 0.7:
            return f"Id. at {self.pin()}"
        if x < 0.8:
            return "Ibid."
        if x < 0.9:
            return f"§ {self.vol()}"
        return f"{self.name()} at {self.pick(['3', '17', '200'])}"

    # -- documents ------------------------------------------------------
    def document(self, n_items=3, frags=None, mb=None, mb_rate=0.0):
        """n_items citations/references joined by prose.  mb: alphabet of
        multi-byte characters sprinkled at citation boundaries with mb_rate."""
        r = self.r
        parts = []
        self.cited = []
        if r.random() < 0.7:
            parts.append(self.words(r.randrange(1, 6)).capitalize() + " ")
        for i in range(n_items):
            if frags:
                item = self.cite(frags[i % len(frags)])
            elif r.random() < 0.75:
                item = self.cite()
            else:
                item = self.reference()
            pre = post = ""
            if mb and r.random() < mb_rate:
                pre = self.pick(mb) + self.pick(["", "", " ", "x"])
            if mb and r.random() < mb_rate:
                post = self.pick(["", "", " ", ","]) + self.pick(mb)
            parts.append(pre + item + post)
            if getattr(self, "last_parties", None) and r.random() < 0.5:
                parts.append(self.pick([". ", "; ", ". Later, ", ".\n"]) + self.follow_up())
                self.last_parties = None
            sep = self.pick(["; ", ". ", ", ", " ", "\n", ".\n\n", " see ", "; see also "])
            if r.random() < 0.6:
                sep += self.words(r.randrange(1, 8)) + self.pick([" ", ", ", ". ", "\n"])
            if i < n_items - 1 or r.random() < 0.5:
                parts.append(sep)
        return "".join(parts)

    def markup(self, text):
        """Wrap a plain document into simple markup with <em> party names."""
        r = self.r
        out = []
        for w in text.split(" "):
            bare = w.strip(",.;()")
            if bare in NAMES and r.random() < 0.5:
                tag = "em" if r.random() < 0.7 else "i"
                w = w.replace(bare, f"<{tag}>{bare}</{tag}>")
            out.append(w)
        body = " ".join(out).replace("\n\n", "</p><p>")
        return f"<div><p>{body}</p></div>"
