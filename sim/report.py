"""Evidence files, replay files, known findings, exit codes."""
import json
import os
import time

from sim import bootstrap

VERIF = bootstrap.VERIF
# VERIF_OUT redirects evidence and replay files (used when the checks are pointed
# at a scratch copy of the repository, so that /verif/evidence only ever holds
# results for /repo itself)
_OUT = os.environ.get("VERIF_OUT") or VERIF
EVIDENCE_DIR = os.path.join(_OUT, "evidence")
REPLAY_DIR = os.path.join(_OUT, "replays")
KNOWN = os.path.join(VERIF, "known_findings.json")

EXIT_OK, EXIT_VIOLATION, EXIT_HARNESS = 0, 1, 2


def load_known(prop):
    """Committed, read-only at run time.  Entries with status "known" suppress
    exactly the violations whose signature they match; "fixed" entries
    suppress nothing."""
    try:
        data = json.load(open(KNOWN, encoding="utf8"))
    except (OSError, ValueError):
        return []
    return [e for e in data.get("findings", [])
            if e.get("property") == prop and e.get("status") == "known"]


def matches_known(known, signature):
    """signature: dict.  An entry matches when every key of its "match" dict
    equals the signature's value."""
    for e in known:
        m = e.get("match") or {}
        if m and all(signature.get(k) == v for k, v in m.items()):
            return e
    return None


def write_replay(prop, tag, payload):
    os.makedirs(REPLAY_DIR, exist_ok=True)
    path = os.path.join(REPLAY_DIR, f"{prop}-{tag}.json")
    payload = dict(payload)
    payload.setdefault("property", prop)
    payload.setdefault("clock", list(bootstrap.pin_clock()))
    payload.setdefault("harness_hashseed", bootstrap.harness_hashseed())
    payload.setdefault("repo", bootstrap.REPO)
    payload.setdefault("repo_head", bootstrap.repo_head())
    with open(path, "w", encoding="utf8") as f:
        json.dump(payload, f, indent=1, ensure_ascii=True, default=repr)
    return path


def write_evidence(prop, tier, seed, level, coverage, assumptions, wall_s, violations):
    os.makedirs(EVIDENCE_DIR, exist_ok=True)
    path = os.path.join(EVIDENCE_DIR, f"{prop}.json")
    doc = {
        "property_id": prop,
        "tier": tier,
        "seed": int(seed),
        "level": level,
        "coverage": coverage,
        "assumptions": assumptions,
        "wall_s": round(wall_s, 2),
        "violations": int(violations),
        "repo_head": bootstrap.repo_head(),
        "written_at_unix": int(time.time()),
    }
    tmp = path + ".tmp"
    with open(tmp, "w", encoding="utf8") as f:
        json.dump(doc, f, indent=1, ensure_ascii=True, default=repr)
    os.replace(tmp, path)
    return path
