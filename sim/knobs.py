"""Tuning knobs owned by the simulator ("buggify" for sizes).

A module-level mutable container bounded by a module-level integer constant, and
a functools.lru_cache with a finite maxsize, are caches or pools: by the property
under test (results do not depend on what was processed before) their *capacity*
cannot matter.  The simulator therefore shrinks such capacities in some runs, so
that whatever happens "once the cache is full" happens within a two-document
scenario instead of after hundreds of distinct inputs.

Found from the current tree on every invocation:
  * `NAME = <int>` at module level, compared somewhere in the same module with
    `len(<module-level dict/list/set/OrderedDict/deque>)`;
  * lru_cache-wrapped callables reachable from an eyecite module or class.
Semantic limits (a look-back distance, a maximal match length) are compared with
lengths of *arguments*, never of module-level state, and are left alone.

Applied from outside (module attributes), in the forked run child only.
"""
import ast
import functools
import os
import sys

_CONTAINER_CALLS = {"dict", "list", "set", "OrderedDict", "defaultdict", "deque", "Counter", "WeakValueDictionary"}


def _modules(pkg="eyecite"):
    return {n: m for n, m in sorted(sys.modules.items())
            if (n == pkg or n.startswith(pkg + ".")) and m is not None and ".test" not in n
            and not n.split(".")[-1].startswith("test_")}


def discover(pkg="eyecite"):
    """[{"kind": "const", "module": m, "name": n, "value": v} | {"kind": "lru", "module": m, "name": n, "maxsize": k}]"""
    found = []
    for mn, mod in _modules(pkg).items():
        path = getattr(mod, "__file__", None)
        if not path or not path.endswith(".py") or not os.path.exists(path):
            continue
        try:
            tree = ast.parse(open(path, encoding="utf8").read())
        except (SyntaxError, OSError):
            continue
        consts, containers = {}, set()
        for node in tree.body:
            targets, value = [], None
            if isinstance(node, ast.Assign):
                targets, value = node.targets, node.value
            elif isinstance(node, ast.AnnAssign) and node.value is not None:
                targets, value = [node.target], node.value
            for tg in targets:
                if not isinstance(tg, ast.Name):
                    continue
                if isinstance(value, ast.Constant) and type(value.value) is int and value.value >= 4:
                    consts[tg.id] = value.value
                elif isinstance(value, (ast.Dict, ast.List, ast.Set)):
                    containers.add(tg.id)
                elif isinstance(value, ast.Call):
                    f = value.func
                    nm = f.id if isinstance(f, ast.Name) else f.attr if isinstance(f, ast.Attribute) else None
                    if nm in _CONTAINER_CALLS:
                        containers.add(tg.id)
        hit = set()
        for node in ast.walk(tree):
            if not isinstance(node, ast.Compare):
                continue
            sides = [node.left] + list(node.comparators)
            lens = any(isinstance(x, ast.Call) and isinstance(x.func, ast.Name) and x.func.id == "len"
                       and x.args and isinstance(x.args[0], ast.Name) and x.args[0].id in containers
                       for x in sides)
            if lens:
                for x in sides:
                    if isinstance(x, ast.Name) and x.id in consts:
                        hit.add(x.id)
        for name in sorted(hit):
            found.append({"kind": "const", "module": mn, "name": name, "value": consts[name]})
        # lru caches
        seen = set()
        holders = [(mn, vars(mod))] + [(f"{mn}.{k}", vars(v)) for k, v in vars(mod).items()
                                       if isinstance(v, type) and getattr(v, "__module__", None) == mn]
        for hn, ns in holders:
            for k, v in list(ns.items()):
                if isinstance(v, functools._lru_cache_wrapper) and id(v) not in seen:
                    seen.add(id(v))
                    ms = v.cache_parameters().get("maxsize")
                    if ms is not None and ms > 3 and getattr(v, "__module__", mn).startswith(pkg):
                        found.append({"kind": "lru", "module": hn, "name": k, "maxsize": ms})
    return found


def apply(knobs, size, pkg="eyecite"):
    """Shrink every knob to `size`.  Returns the number of places changed."""
    n = 0
    mods = _modules(pkg)
    for kb in knobs:
        if kb["kind"] == "const":
            for mn, mod in mods.items():
                # the defining module, and modules that imported the name
                if getattr(mod, kb["name"], None) == kb["value"] and type(getattr(mod, kb["name"])) is int:
                    if mn == kb["module"] or kb["name"] in vars(mod):
                        setattr(mod, kb["name"], int(size))
                        n += 1
        else:
            old = None
            for mn, mod in mods.items():
                holders = [vars(mod)] + [v for v in vars(mod).values() if isinstance(v, type)]
                for h in holders:
                    ns = h if isinstance(h, dict) else vars(h)
                    v = ns.get(kb["name"])
                    if isinstance(v, functools._lru_cache_wrapper):
                        if old is None:
                            old = v
                            new = functools.lru_cache(maxsize=int(size),
                                                      typed=v.cache_parameters().get("typed", False))(v.__wrapped__)
                        if v is old:
                            if isinstance(h, dict):
                                h[kb["name"]] = new
                            else:
                                setattr(h, kb["name"], new)
                            n += 1
    return n
