"""Serialise eyecite results into plain, comparable, picklable values.

Nothing here looks at object identity, at identity-based hashes or at log
output; editions are kept as *ordered* tuples because c.exact_editions[0] is
what a user (and eyecite's own nominative-reporter rule) reads.
"""


def _dt(d):
    return None if d is None else d.isoformat()


def edition(e):
    if e is None:
        return None
    return (e.reporter.short_name, e.reporter.source, e.short_name, _dt(e.start), _dt(e.end))


def editions(es):
    return tuple(edition(e) for e in es)


def _plain(v):
    if v is None or isinstance(v, (str, int, float, bool)):
        return v
    if isinstance(v, (list, tuple)):
        return tuple(_plain(x) for x in v)
    if isinstance(v, dict):
        return tuple(sorted((str(k), _plain(x)) for k, x in v.items()))
    return repr(v)


def groups(g):
    return tuple(sorted((str(k), _plain(v)) for k, v in (g or {}).items()))


def metadata(m, mask=()):
    d = getattr(m, "__dict__", None)
    if d is None:
        return repr(m)
    return tuple(sorted((k, _plain(v)) for k, v in d.items() if k not in mask))


def hashes_by_value(c):
    """True unless the citation hashes by identity by design."""
    name = type(c).__name__
    if name in ("IdCitation", "UnknownCitation"):
        return False
    g = getattr(c, "groups", None) or {}
    if name in ("FullCaseCitation", "ShortCaseCitation") and g.get("page") is None:
        return False
    return True


def citation(c, mask=()):
    """Everything the property lists: kind, spans, groups, metadata, candidate
    editions, guessed edition, value hash; plus corrected_citation()."""
    out = {
        "kind": type(c).__name__,
        "span": tuple(c.span()),
        "full_span": tuple(c.full_span()),
        "groups": groups(c.groups),
        "metadata": metadata(c.metadata, mask),
        "text": str(c.token),
    }
    try:
        out["span_with_pincite"] = tuple(c.span_with_pincite())
    except Exception as e:  # pragma: no cover - reported as part of the value
        out["span_with_pincite"] = "raised:" + type(e).__name__
    if hasattr(c, "exact_editions"):
        out["year"] = c.year
        out["exact_editions"] = editions(c.exact_editions)
        out["variation_editions"] = editions(c.variation_editions)
        out["edition_guess"] = edition(c.edition_guess)
        try:
            out["corrected"] = c.corrected_citation()
        except Exception as e:
            out["corrected"] = "raised:" + type(e).__name__
    if hashes_by_value(c):
        try:
            out["hash"] = hash(c)
        except Exception as e:
            out["hash"] = "raised:" + type(e).__name__
    return tuple(sorted(out.items()))


def citations(cs, mask=()):
    return tuple(citation(c, mask) for c in cs)


def token_key(t):
    """Candidate-token key used by the C14 differential."""
    k = [type(t).__name__, t.start, t.end, str(t), groups(t.groups)]
    if hasattr(t, "exact_editions"):
        k.append(tuple(sorted(editions(t.exact_editions))))
        k.append(tuple(sorted(editions(t.variation_editions))))
        k.append(bool(t.short))
    return tuple(k)
