"""Delta debugging over recorded operation / decision lists and over texts."""


class Budget:
    def __init__(self, n):
        self.left = n

    def take(self):
        if self.left <= 0:
            return False
        self.left -= 1
        return True


def ddmin(items, test, budget):
    """Smallest sub-list (1-minimal up to the budget) for which test() is True.
    test(items) is assumed True for the input list."""
    items = list(items)
    n = 2
    while len(items) >= 1:
        if len(items) == 1:
            if budget.take() and test([]):
                return []
            return items
        chunk = max(1, len(items) // n)
        subsets = [items[i:i + chunk] for i in range(0, len(items), chunk)]
        reduced = False
        # try complements first (removing one chunk), the common win
        for i in range(len(subsets)):
            comp = [x for k, s in enumerate(subsets) if k != i for x in s]
            if not budget.take():
                return items
            if test(comp):
                items = comp
                n = max(n - 1, 2)
                reduced = True
                break
        if not reduced:
            for s in subsets:
                if len(s) < len(items):
                    if not budget.take():
                        return items
                    if test(s):
                        items = s
                        n = 2
                        reduced = True
                        break
        if not reduced:
            if chunk == 1:
                break
            n = min(len(items), n * 2)
    return items


def shrink_text(text, test, budget):
    """Shrink a text: by space-separated tokens, then by characters."""
    if not text:
        return text
    toks = text.split(" ")
    if len(toks) > 1:
        toks = ddmin(toks, lambda ts: test(" ".join(ts)), budget)
        text = " ".join(toks)
    if len(text) <= 400:
        chars = ddmin(list(text), lambda cs: test("".join(cs)), budget)
        text = "".join(chars)
    return text
