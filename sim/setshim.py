"""Set-iteration-order seam.

`set` is looked up in a module's globals before builtins, so putting a `set`
subclass into the globals of every eyecite module makes each `set(...)` *call*
in the code under test return an object whose iteration order the simulator
owns.  Real code is otherwise untouched.  Set literals, comprehensions and
C-level sets are not seen (those are covered by real PYTHONHASHSEED contexts).

The shim explores *more* orders than hash seeds can produce, so a disagreement
seen only under the shim is confirmed under real hash seeds before it is
reported (c15.py).
"""
import sys

_real_set = set


class _State:
    mode = "off"          # off | reverse | rotate | shuffle
    rng = None
    iterations = 0
    reordered = 0


STATE = _State()


class ShimSet(_real_set):
    __slots__ = ()

    def __iter__(self):
        items = list(_real_set.__iter__(self))
        st = STATE
        if st.mode == "off" or len(items) < 2:
            return iter(items)
        st.iterations += 1
        before = list(items)
        if st.mode == "reverse":
            items.reverse()
        elif st.mode == "rotate":
            k = st.rng.randrange(len(items))
            items = items[k:] + items[:k]
        else:
            st.rng.shuffle(items)
        if any(a is not b for a, b in zip(items, before)):
            st.reordered += 1
        return iter(items)


ShimSet.__name__ = "set"
ShimSet.__qualname__ = "set"


def install(mode, rng, package="eyecite"):
    """Inject the shim into every loaded module of the package."""
    STATE.mode = mode
    STATE.rng = rng
    STATE.iterations = 0
    STATE.reordered = 0
    n = 0
    if mode == "off":
        return 0
    for name, mod in sorted(sys.modules.items()):
        if mod is None:
            continue
        if name == package or name.startswith(package + "."):
            if "set" not in mod.__dict__:
                mod.__dict__["set"] = ShimSet
                n += 1
    return n
