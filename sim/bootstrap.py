"""Pristine-parent bootstrap: hash seed, clock pin, import of the code under test.

* the harness interpreter is re-exec'd with a fixed PYTHONHASHSEED (0 unless
  VERIF_HARNESS_HASHSEED says otherwise; the determinism self-test uses that),
* the calendar is pinned *before* eyecite is imported (eyecite reads it at
  import time and in Edition.includes_year),
* eyecite is imported from VERIF_REPO (default /repo) -- the working tree, so
  there is nothing to build,
* nothing of eyecite is ever *called* in the parent, so every forked child
  starts with cold lazy caches.
"""
import os
import sys

REPO = os.environ.get("VERIF_REPO", "/repo")
VERIF = os.path.dirname(os.path.dirname(os.path.abspath(__file__)))
PIN = (2026, 7, 1, 12, 0, 0)  # simulated "now"; override with VERIF_CLOCK=YYYY-MM-DD


def harness_hashseed() -> str:
    return os.environ.get("VERIF_HARNESS_HASHSEED", "0")


def ensure_hashseed():
    """Re-exec so that the harness (and every forked child) has a fixed hash seed."""
    want = harness_hashseed()
    if os.environ.get("PYTHONHASHSEED") != want:
        env = dict(os.environ)
        env["PYTHONHASHSEED"] = want
        os.execve(sys.executable, [sys.executable] + sys.argv, env)


_clock_pinned = None


def pin_clock(pin=None):
    """Replace datetime.date / datetime.datetime by same-named subclasses whose
    today()/now() return the simulated instant.  Must run before eyecite (and
    reporters_db) are imported."""
    global _clock_pinned
    import datetime as D

    if _clock_pinned is not None:
        return _clock_pinned
    if pin is None:
        env = os.environ.get("VERIF_CLOCK")
        if env:
            y, m, d = (int(x) for x in env.split("-"))
            pin = (y, m, d, 12, 0, 0)
        else:
            pin = PIN
    real_date, real_datetime = D.date, D.datetime

    class _Date(real_date):
        @classmethod
        def today(cls):
            return cls(pin[0], pin[1], pin[2])

    class _Datetime(real_datetime):
        @classmethod
        def now(cls, tz=None):
            return cls(*pin, tzinfo=tz)

        @classmethod
        def today(cls):
            return cls(*pin)

        @classmethod
        def utcnow(cls):
            return cls(*pin)

    # repr() of an Edition feeds TokenExtractor.__hash__ (hash(repr(self)));
    # keep it byte-identical to the unpinned interpreter.
    _Date.__name__ = _Date.__qualname__ = "datetime.date"
    _Datetime.__name__ = _Datetime.__qualname__ = "datetime.datetime"
    _Date.__module__ = _Datetime.__module__ = "datetime"
    D.date = _Date
    D.datetime = _Datetime
    _clock_pinned = pin
    return pin


def import_eyecite():
    """Import the code under test from the working tree."""
    if REPO not in sys.path[:1]:
        sys.path.insert(0, REPO)
    import logging

    from sim import simlock

    # locks created by the code under test from now on are scheduler-aware
    simlock.install()

    # eyecite logs "Unknown overlap case" warnings; log output is not part of
    # any result and would drown the check's own output
    logging.disable(logging.CRITICAL)
    import eyecite  # noqa: F401

    got = os.path.dirname(os.path.dirname(os.path.abspath(eyecite.__file__)))
    if os.path.realpath(got) != os.path.realpath(REPO):
        raise RuntimeError(f"eyecite imported from {got}, expected {REPO}")
    return eyecite


def repo_head():
    import subprocess

    try:
        head = subprocess.run(
            ["git", "-C", REPO, "rev-parse", "HEAD"],
            capture_output=True, text=True, timeout=20,
        ).stdout.strip()
        dirty = subprocess.run(
            ["git", "-C", REPO, "status", "--porcelain", "--untracked-files=no"],
            capture_output=True, text=True, timeout=20,
        ).stdout.strip()
        return head + ("+dirty" if dirty else "")
    except Exception:  # pragma: no cover
        return "unknown"


def warm_pattern_caches(log=None):
    """Pre-compile every extractor pattern into the *re module's* cache (and the
    metadata patterns into the regex module's cache) in the pristine parent.

    Forked children inherit these caches, so `re.compile(...)` inside eyecite's
    lazy initialisers returns at once instead of re-running the pure-Python sre
    parser under the trace hook in every run.  eyecite's own lazy caches
    (TokenExtractor._compiled_regex, HyperscanTokenizer._db) stay cold: nothing
    of eyecite is called, only pattern *strings* are read."""
    import re
    import time

    t0 = time.monotonic()
    from eyecite.tokenizers import EXTRACTORS

    re._MAXCACHE = max(getattr(re, "_MAXCACHE", 512), 4 * len(EXTRACTORS) + 1024)
    n = 0
    for e in EXTRACTORS:
        try:
            re.compile(e.regex, flags=e.flags)
            n += 1
        except re.error:
            pass
    try:
        import regex

        from eyecite import regexes as R

        for name in ("POST_FULL_CITATION_REGEX", "POST_SHORT_CITATION_REGEX",
                     "POST_LAW_CITATION_REGEX", "POST_JOURNAL_CITATION_REGEX"):
            regex.search(rf"^(?:{getattr(R, name)})", "", flags=regex.X)
        for name in ("PRE_FULL_CITATION_REGEX", "SHORT_CITE_ANTECEDENT_REGEX",
                     "SUPRA_ANTECEDENT_REGEX"):
            regex.search(rf"(?:{getattr(R, name)})$", "", flags=regex.X)
        regex.match(R.YEAR_REGEX, "", flags=regex.X)
        regex.search(R.DEFENDANT_YEAR_REGEX, "")
    except Exception:
        pass
    if log:
        log(f"[harness] pattern caches warmed: {n} extractor patterns ({time.monotonic() - t0:.1f}s)")
