"""Determinism self-test of the simulator (DESIGN section 7).

For N VERIF_SEED-derived run seeds per check: execute each run twice (different
fork slots, different worker counts), once more from the recorded explicit
schedule, and -- in a fresh harness interpreter under another PYTHONHASHSEED --
a third time; diff the full event records.  Any difference is a harness bug
(exit 2), never a verdict about eyecite.
"""
import json
import os
import subprocess
import sys
import time

from sim import atlas as atlas_mod
from sim import bootstrap, forkpool, seeds


def _c15_records(run_seeds, atlas, workers, explicit=False):
    import c15

    sg = c15.ScenarioGen(atlas, "quick")
    scns = [sg.scenario(s) for s in run_seeds]
    out = [None] * len(scns)

    def got(i, job, res):
        out[i] = res

    forkpool.run_jobs(scns, c15.exec_scenario, workers=workers, timeout=120, on_result=got)
    if explicit:
        scns2 = [c15.to_replayable(s, r) if "_harness" not in r else s for s, r in zip(scns, out)]
        out2 = [None] * len(scns2)
        forkpool.run_jobs(scns2, c15.exec_scenario, workers=workers, timeout=120,
                          on_result=lambda i, j, r: out2.__setitem__(i, r))
        return out, out2
    return out


def _rec(r):
    if "_harness" in r:
        return {"harness": r["_harness"]}
    return {"obs": r["obs"], "viol": r["viol"], "events": r["events"], "switches": r["switches"],
            "digest": r["digest"], "recorded": seeds.digest(r["recorded"]), "exits": r["exits"],
            "stats": r["stats"], "shim": r["shim"]}


def _c14_records(run_seeds, workers):
    try:
        import c14
    except ImportError:
        return None
    return c14.selftest_records(run_seeds, workers)


def records(n, what=("C15", "C14")):
    """Digest of the full event records of n runs per check (used across
    interpreters)."""
    root = seeds.root_seed(int(os.environ.get("VERIF_SEED", "0") or 0), "selftest", "det")
    run_seeds = [seeds.run_seed(root, i) for i in range(n)]
    out = {}
    if "C15" in what:
        atlas = atlas_mod.build(workers=16)
        out["atlas"] = seeds.digest(atlas)
        out["C15"] = [seeds.digest(_rec(r)) for r in _c15_records(run_seeds, atlas, 16)]
    if "C14" in what:
        r14 = _c14_records(run_seeds[: max(4, n // 6)], 16)
        if r14 is not None:
            out["C14"] = [seeds.digest(r) for r in r14]
    return out


def determinism(runs=200, log=print, quick=False):
    t0 = time.monotonic()
    root = seeds.root_seed(int(os.environ.get("VERIF_SEED", "0") or 0), "selftest", "det")
    run_seeds = [seeds.run_seed(root, i) for i in range(runs)]
    atlas = atlas_mod.build(workers=16)
    bad = 0
    a = _c15_records(run_seeds, atlas, 16)
    b, b2 = _c15_records(run_seeds, atlas, 4 if not quick else 16, explicit=True)
    harness = sum(1 for r in a if "_harness" in r)
    for i, (x, y, z) in enumerate(zip(a, b, b2)):
        rx, ry, rz = _rec(x), _rec(y), _rec(z)
        if rx != ry:
            bad += 1
            log(f"[selftest] C15 run {i} seed {run_seeds[i]}: two executions differ")
        # the explicit-schedule replay must reproduce the same event sequence
        for k in ("obs", "viol", "events", "switches", "digest", "stats"):
            if rx.get(k) != rz.get(k):
                bad += 1
                log(f"[selftest] C15 run {i} seed {run_seeds[i]}: replay from recorded schedule differs in {k}: {rx.get(k)} vs {rz.get(k)}")
                break
    log(f"[selftest] C15: {runs} runs x (2 executions + 1 explicit-schedule replay), "
        f"mismatches={bad}, harness={harness} ({time.monotonic() - t0:.1f}s)")
    n14 = 0
    r14a = _c14_records(run_seeds[: max(3, runs // 8)], 16)
    if r14a is not None:
        r14b = _c14_records(run_seeds[: max(3, runs // 8)], 5)
        n14 = len(r14a)
        for i, (x, y) in enumerate(zip(r14a, r14b)):
            if x != y:
                bad += 1
                log(f"[selftest] C14 run {i} seed {run_seeds[i]}: two executions differ")
                log("   " + json.dumps(x, default=repr)[:600])
                log("   " + json.dumps(y, default=repr)[:600])
        log(f"[selftest] C14: {n14} runs x 2 executions, mismatches so far={bad} "
            f"({time.monotonic() - t0:.1f}s)")
    if not quick:
        # the harness itself under another hash seed, in a fresh interpreter
        n = min(runs, 60)
        mine = records(n)
        env = dict(os.environ)
        env["VERIF_HARNESS_HASHSEED"] = "12345"
        env["PYTHONHASHSEED"] = "12345"
        p = subprocess.run([sys.executable, os.path.join(bootstrap.VERIF, "vcheck.py"),
                            "selftest-records", "--runs", str(n)],
                           env=env, capture_output=True, text=True, timeout=1800)
        try:
            other = json.loads(p.stdout.strip().splitlines()[-1])
        except Exception:
            log(f"[selftest] could not read records of the second interpreter: {p.stderr[-800:]}")
            return 2
        for k in sorted(mine):
            if mine[k] != other.get(k):
                bad += 1
                log(f"[selftest] harness under PYTHONHASHSEED=12345 differs in {k}")
        log(f"[selftest] harness hash-seed independence: {n} runs compared, total mismatches={bad} "
            f"({time.monotonic() - t0:.1f}s)")
    if bad or harness > max(1, runs // 20):
        log("[selftest] FAILED: the simulator is not deterministic (harness bug, not a verdict)")
        return 2
    log("[selftest] ok")
    return 0
