"""C14 -- the Hyperscan tokenizer is a drop-in replacement for the default one.

Crash/restart and storage-fault simulation of the cache path, with the
Hyperscan-vs-reference differential as the workload whose answers are checked
after every fault (DESIGN section 4).

A *run* is executed in a forked child of the pristine parent; it forks one
grandchild per process *lifetime* (a node doing what the README tells users to
do).  Only the cache directory survives from one lifetime to the next.
"""
import dataclasses
import errno
import json
import os
import pickle
import random
import re
import select
import shutil
import signal
import sys
import time
import traceback
from collections import Counter

from sim import atlas as atlas_mod
from sim import bootstrap, forkpool, seeds, ser, storage, textgen
from sim import report as report_mod

PROP = "C14"
SCRATCH = "/dev/shm"
HEADER = {"magic": (0, 4), "version": (4, 8), "length": (8, 12),
          "platform": (12, 20), "crc": (20, 24), "reserved": (24, 32)}
LEN_CLASSES = [["abs", 0], ["abs", 1], ["abs", 3], ["abs", 4], ["abs", 7], ["abs", 8],
               ["abs", 11], ["abs", 12], ["abs", 19], ["abs", 20], ["abs", 23], ["abs", 24],
               ["abs", 31], ["abs", 32], ["abs", 33], ["abs", 4095], ["abs", 4096],
               ["abs", 4097], ["frac", 0.5], ["end", -4096], ["end", -1]]
FOREIGN = {
    # values a different library version / CPU / mode would have written
    "version": ["00000505", "00040405", "000c0305", "000c0404", "ffffffff", "00000000"],
    "platform": ["0000000000000000", "0080030000000001", "ffffffffffffffff", "0100000000000000"],
    "magic": ["00000000", "dbdbdbda"],
    "length": ["00000000", "ffffffff", "e09d0701"],
    "crc": ["00000000", "ffffffff"],
    "reserved": ["ffffffffffffffff", "0100000000000000"],
}
LIFE_TIMEOUT = 150.0          # full 6,832-extractor list (20 s compile, 40 MB write)
LIFE_TIMEOUT_SMALL = 40.0     # swarm lists (<= 400 extractors compile in < 1 s)


def life_timeout(job):
    return LIFE_TIMEOUT if job.get("ext") == "all" or job.get("kind") == "full" else LIFE_TIMEOUT_SMALL


# --------------------------------------------------------------------------
# extractor lists
# --------------------------------------------------------------------------

def tagged_extractors(idx, flag_toggle=()):
    """Shallow copies of the EXTRACTORS selected by idx whose constructor tags
    every token with the position of its extractor in this list.  (TokenExtractor
    is a dataclass with a `constructor` field, so no change in /repo is needed.)
    flag_toggle: positions whose re.I flag is flipped (a *different* list with
    equal expressions)."""
    from eyecite.tokenizers import EXTRACTORS

    if idx == "all":
        idx = list(range(len(EXTRACTORS)))
    out = []
    for pos, i in enumerate(idx):
        e = synthetic_extractor(i) if isinstance(i, str) else EXTRACTORS[i]

        def ctor(m, extra, offset=0, _c=e.constructor, _pos=pos):
            t = _c(m, extra, offset)
            t.__dict__["_vx"] = _pos
            return t

        flags = e.flags ^ re.I if pos in flag_toggle else e.flags
        out.append(dataclasses.replace(e, constructor=ctor, flags=flags))
    return out


# Synthetic extractors for caller-chosen lists whose cache keys collide under
# plausible non-injective encodings of (expressions, flags): the same
# concatenation split at another place, one alternation against two patterns,
# flags swapped between two patterns, another multiplicity of a duplicate.
# "A" variants are appended to the list under test, "B" variants form the
# foreign list that used the directory before.
SYNTH = {
    "shiftA1": (r"(Pub\. L\.) ", 0), "shiftA2": (r"(No\. \d+-\d+)", 0),
    "shiftB1": (r"(Pub\. L\.)", 0), "shiftB2": (r" (No\. \d+-\d+)", 0),
    "pipeA1": (r"(Stat\. Ann\.)|(Rev\. Code)", 0),
    "pipeB1": (r"(Stat\. Ann\.)", 0), "pipeB2": (r"(Rev\. Code)", 0),
    "flagA1": (r"(ex rel\.)", re.I), "flagA2": (r"(In re)", 0),
    "flagB1": (r"(ex rel\.)", 0), "flagB2": (r"(In re)", re.I),
    "dupA1": (r"(ex parte)", 0), "dupA2": (r"(ex parte)", 0), "dupA3": (r"(et al\.)", 0),
    "dupB1": (r"(ex parte)", 0), "dupB2": (r"(et al\.)", 0), "dupB3": (r"(et al\.)", 0),
    "nlA1": ("(Gen\\. Laws)\n(ch\\. \\d+)", 0),
    "nlB1": (r"(Gen\. Laws)", 0), "nlB2": (r"(ch\. \d+)", 0),
}
SYNTH_FAMILIES = {
    "shift": (["shiftA1", "shiftA2"], ["shiftB1", "shiftB2"]),
    "pipe": (["pipeA1"], ["pipeB1", "pipeB2"]),
    "flagswap": (["flagA1", "flagA2"], ["flagB1", "flagB2"]),
    "dup": (["dupA1", "dupA2", "dupA3"], ["dupB1", "dupB2", "dupB3"]),
    "newline": (["nlA1"], ["nlB1", "nlB2"]),
}
SYNTH_TEXTS = ["Pub. L. No. 94-142 and Pub. L. No. 1-2, see Pub. L. 3", "Stat. Ann. 1; Rev. Code 2; Stat. Ann. Rev. Code",
               "State ex rel. Doe, EX REL. Roe, In re Poe, IN RE Moe, in re x", "ex parte Doe et al. ex parte et al.",
               "Gen. Laws\nch. 12, Gen. Laws ch. 3"]


def synthetic_extractor(name):
    from eyecite.models import StopWordToken, TokenExtractor

    rx, fl = SYNTH[name]

    def whole(m, extra, offset=0):
        return StopWordToken(m[0], m.start() + offset, m.end() + offset, groups={})

    return TokenExtractor(rx, whole, flags=fl)


_LOOSE = re.compile(r"\\w|(?<!\\)\.(?![*+?]?\))")


def regex_is_loose(rx):
    r"""Patterns with \w or an unescaped dot: Python's class and Hyperscan's byte
    class differ on every non-ASCII character, so the statement's domain excludes
    non-ASCII characters *inside or next to* their matches."""
    s = re.sub(r"\[[^\]]*\]", "", rx)   # drop character classes
    return bool(re.search(r"\\w", s) or re.search(r"(?<!\\)\.", s))


def boundaries(rx):
    left = "none"
    right = "none"
    if rx.startswith("(?:^|[^a-zA-Z0-9])("):
        left = "nonalnum"
    elif rx.startswith(r"(?:^|\s)("):
        left = "space"
    if rx.endswith(")(?:[^a-zA-Z0-9]|$)"):
        right = "nonalnum"
    elif rx.endswith(r")(?:\s|$)"):
        right = "space"
    return left, right


_INNER = {}


def _inner_regex(ext):
    key = (ext.regex, ext.flags)
    if key not in _INNER:
        rx = ext.regex
        left, right = boundaries(rx)
        pre = {"nonalnum": "(?:^|[^a-zA-Z0-9])", "space": r"(?:^|\s)", "none": ""}[left]
        suf = {"nonalnum": "(?:[^a-zA-Z0-9]|$)", "space": r"(?:\s|$)", "none": ""}[right]
        body = rx[len(pre): len(rx) - len(suf)]
        inner = None
        if body.startswith("(") and body.endswith(")"):
            try:
                inner = re.compile(body[1:-1], ext.flags)
            except re.error:
                inner = None
        _INNER[key] = inner
    return _INNER[key]


def _ascii_alnum(c):
    return ("a" <= c <= "z") or ("A" <= c <= "Z") or ("0" <= c <= "9")


def genuine(ext, text, s, e, groups):
    """Is [s,e) -- with its *real* neighbours -- in the language of ext's pattern?
    (clause b: ^ and $ may only be used at the true ends of the text).  The
    boundary classes are checked on the real neighbours; the capture group's own
    sub-pattern must match exactly text[s:e]."""
    left, right = boundaries(ext.regex)
    n = len(text)
    if not (0 <= s <= e <= n):
        return False
    if left == "nonalnum" and not (s == 0 or not _ascii_alnum(text[s - 1])):
        return False
    if left == "space" and not (s == 0 or text[s - 1].isspace()):
        return False
    if right == "nonalnum" and not (e == n or not _ascii_alnum(text[e])):
        return False
    if right == "space" and not (e == n or text[e].isspace()):
        return False
    inner = _inner_regex(ext)
    if inner is None:
        # unknown pattern shape: fall back to what eyecite itself does on the
        # window including the neighbours
        p = s - 1 if (left != "none" and s > 0) else s
        q = e + 1 if (right != "none" and e < n) else e
        m = ext.compiled_regex.match(text[p:q])
        return bool(m and m.span(1) == (s - p, e - p) and m.groupdict() == groups)
    m = inner.fullmatch(text, s, e)
    if m is None:
        return False
    if m.groupdict() == groups:
        return True
    # ambiguous patterns may bind groups differently on another path; accept
    # the binding eyecite's own re-match produces on the window
    p = s - 1 if (left != "none" and s > 0) else s
    q = e + 1 if (right != "none" and e < n) else e
    m2 = ext.compiled_regex.match(text[p:q])
    return bool(m2 and m2.span(1) == (s - p, e - p) and m2.groupdict() == groups)


# --------------------------------------------------------------------------
# child side: references and nodes
# --------------------------------------------------------------------------

class SimHang(BaseException):
    """More than 15 simulated minutes of sleeping inside one lifetime."""


def _tok_full(t):
    return ser.token_key(t) + (getattr(t, "_vx", -1),)


def _eval_texts(tok, texts, full, cits_too=True):
    from eyecite import get_citations

    out = []
    for text in texts:
        item = {}
        try:
            toks = list(tok.extract_tokens(text))
            keys = [_tok_full(t) for t in toks]
            item["cand_d"] = seeds.digest(sorted(repr(k[:-1]) for k in keys))
            if full:
                item["cand"] = keys
        except Exception as ex:
            item["cand_err"] = type(ex).__name__
            item["cand_tb"] = traceback.format_exc()[-1500:]
        if not cits_too:
            out.append(item)
            continue
        try:
            cits = ser.citations(get_citations(text, tokenizer=tok))
            item["cits_d"] = seeds.digest(cits)
            if full:
                item["cits"] = cits
        except Exception as ex:
            item["cits_err"] = type(ex).__name__
            item["cits_tb"] = traceback.format_exc()[-1500:]
        out.append(item)
    return out


def refs_run(job):
    """B: HyperscanTokenizer without a cache.  R: the pure-Python Tokenizer."""
    from eyecite.tokenizers import HyperscanTokenizer, Tokenizer

    exts = tagged_extractors(job["ext"])
    out = {}
    try:
        hs = HyperscanTokenizer(extractors=exts, cache_dir=None)
        hs.hyperscan_db
        out["B"] = _eval_texts(hs, job["texts"], True, not job.get("cands_only"))
    except Exception as ex:
        out["B_err"] = type(ex).__name__
        out["B_tb"] = traceback.format_exc()[-2000:]
    ref = Tokenizer(extractors=exts)
    out["R"] = _eval_texts(ref, job["texts"], True, not job.get("cands_only"))
    return out


def node_run(arg):
    """One process lifetime."""
    job, step, D, gate_fds = arg
    import hyperscan
    from eyecite.tokenizers import HyperscanTokenizer

    gate = None
    if gate_fds is not None:
        st_w, go_r = gate_fds

        def gate(desc):
            os.write(st_w, (json.dumps(["park", list(desc)]) + "\n").encode())
            b = os.read(go_r, 1)
            if not b:
                os._exit(3)

    seam = storage.Seam(D, chunk=job.get("chunk", 65536), crash=step.get("crash"),
                        enospc_after=step.get("enospc"), gate=gate, oserr=step.get("oserr"),
                        readonly=step.get("readonly"))
    load_log = []
    real_loadb = hyperscan.loadb

    def loadb(*a, **k):
        try:
            r = real_loadb(*a, **k)
            load_log.append("ok")
            return r
        except BaseException as ex:
            load_log.append(type(ex).__name__)
            raise

    hyperscan.loadb = loadb
    seam.install()
    # virtual time: sleeping costs nothing and advances the clocks the node reads;
    # a lifetime that has slept for more than 15 simulated minutes without
    # finishing is hung (a waiter whose peer died holding a lock, say)
    vt = {"t": 0.0, "n": 0}
    real_time, real_mono = time.time, time.monotonic

    def vsleep(dt=0):
        vt["t"] += max(0.0, float(dt))
        vt["n"] += 1
        if gate is not None:
            gate(("sleep", vt["n"], round(float(dt), 3)))
        if vt["t"] > 900.0 or vt["n"] > 200000:
            raise SimHang()

    skew = float(step.get("clock", 0.0))    # this lifetime's wall clock is off by `skew` seconds

    time.sleep = vsleep
    time.time = lambda: real_time() + vt["t"] + skew
    time.monotonic = lambda: real_mono() + vt["t"]
    if skew:
        import datetime as _dt

        _rd, _rdt = _dt.date, _dt.datetime

        class _SkewDT(_rdt):
            @classmethod
            def now(cls, tz=None):
                return cls.fromtimestamp(real_time() + vt["t"] + skew, tz)

            @classmethod
            def utcnow(cls):
                return cls.utcfromtimestamp(real_time() + vt["t"] + skew)

        _dt.datetime = _SkewDT
    ext_idx = step.get("ext_alt", job["ext"])
    if step.get("ext_perm") is not None and isinstance(ext_idx, list):
        # the same extractors in another order (a re-sorted copy of the list)
        ext_idx = list(ext_idx)
        random.Random(step["ext_perm"]).shuffle(ext_idx)
    exts = tagged_extractors(ext_idx, flag_toggle=tuple(step.get("flag_toggle", ())))
    out = {"status": "ok"}
    try:
        if step.get("pre_instance"):
            # a process rarely owns just one tokenizer: use a small one first
            small = HyperscanTokenizer(extractors=exts[: int(step["pre_instance"])], cache_dir=None)
            list(small.extract_tokens(job["texts"][0][:2000]))
        tok = HyperscanTokenizer(extractors=exts, cache_dir=D)

        def midlife(spec):
            # the directory changes while the process lives: between building a
            # tokenizer and first using it, or between two instances
            seam.paused = True
            try:
                out.setdefault("mid_eff", []).append(apply_fault(D, spec))
            finally:
                seam.paused = False

        if step.get("mid"):
            midlife(step["mid"])
        tok.hyperscan_db
        out["texts"] = _eval_texts(tok, job["texts"], bool(step.get("full")))
        # a process often builds the tokenizer more than once (per request, per
        # worker thread): every further instance on the same directory must agree
        # (not in a lifetime with an injected OS error: the error would be the
        # further instance's and be taken for a tokenizing failure)
        for _ in range(0 if step.get("oserr") else int(step.get("instances", 1)) - 1):
            if step.get("mid_inst"):
                midlife(step["mid_inst"])
            tok2 = HyperscanTokenizer(extractors=exts, cache_dir=D)
            again = _eval_texts(tok2, job["texts"][:4], False)
            for a, b in zip(again, out["texts"]):
                if "cand_err" in a or "cits_err" in a:
                    out["texts"][0] = dict(out["texts"][0], cand_err=a.get("cand_err") or a.get("cits_err"),
                                           cand_tb=a.get("cand_tb") or a.get("cits_tb"))
                    break
                if a.get("cand_d") != b.get("cand_d") or a.get("cits_d") != b.get("cits_d"):
                    out["texts"][0] = dict(out["texts"][0], cand_d="second-instance-differs")
                    break
        for it in out["texts"]:
            if "cand_err" in it or "cits_err" in it:
                out["status"] = "raised"
                out["exc"] = it.get("cand_err") or it.get("cits_err")
                out["tb"] = it.get("cand_tb") or it.get("cits_tb")
                out["where"] = "tokenize"
                break
    except SimHang:
        out.update(status="hang", slept_s=vt["t"], sleeps=vt["n"])
    except OSError as ex:
        if ex.errno == errno.ENOSPC and step.get("enospc") is not None:
            out["status"] = "enospc"
        elif step.get("oserr") and getattr(ex, "injected_by_simulator", False):
            out["status"] = "enospc"
            out["envfault"] = step["oserr"]["errno"]
        else:
            out.update(status="raised", exc=type(ex).__name__, tb=traceback.format_exc()[-2000:],
                       where="construct")
    except Exception as ex:
        # a lifetime into which the simulator injected ENOSPC may fail with that
        # error, also when the library wraps it in an exception of its own
        chain, e2 = [], ex
        while e2 is not None and len(chain) < 8:
            chain.append(e2)
            e2 = e2.__cause__ or e2.__context__
        if step.get("enospc") is not None and any(
                isinstance(c, OSError) and c.errno == errno.ENOSPC for c in chain):
            out["status"] = "enospc"
        elif step.get("oserr") and any(getattr(c, "injected_by_simulator", False) for c in chain):
            out["status"] = "enospc"
            out["envfault"] = step["oserr"]["errno"]
        else:
            out.update(status="raised", exc=type(ex).__name__, tb=traceback.format_exc()[-2000:],
                       where="construct")
    out["ops"] = [(k, name, rel if rel == "." else "f", d if isinstance(d, (int, str, type(None))) else repr(d))
                  for (k, name, rel, d) in seam.log]
    out["wbytes"] = seam.wbytes
    out["load"] = load_log
    out["slept"] = (vt["n"], round(vt["t"], 3))
    if gate_fds is not None:
        os.write(gate_fds[0], (json.dumps(["done"]) + "\n").encode())
    return out


def spawn(fn, arg, timeout=LIFE_TIMEOUT, keep_fds=()):
    """Fork a lifetime; return (kind, value): ("result", obj) | ("exit", code) |
    ("signal", n) | ("hang", None)."""
    rfd, wfd = os.pipe()
    sys.stdout.flush()
    sys.stderr.flush()
    pid = os.fork()
    if pid == 0:
        try:
            os.close(rfd)
            res = fn(arg)
            data = pickle.dumps(res, protocol=pickle.HIGHEST_PROTOCOL)
            view = memoryview(data)
            while view:
                n = os.write(wfd, view)
                view = view[n:]
        except BaseException:
            try:
                os.write(wfd, pickle.dumps({"status": "harness", "tb": traceback.format_exc()}))
            except Exception:
                pass
        finally:
            os._exit(0)
    os.close(wfd)
    return pid, rfd


def collect(pid, rfd, timeout=LIFE_TIMEOUT):
    buf = []
    t0 = time.monotonic()
    hang = False
    while True:
        left = timeout - (time.monotonic() - t0)
        if left <= 0:
            hang = True
            break
        r, _, _ = select.select([rfd], [], [], min(left, 1.0))
        if r:
            chunk = os.read(rfd, 1 << 20)
            if not chunk:
                break
            buf.append(chunk)
    os.close(rfd)
    if hang:
        try:
            os.kill(pid, signal.SIGKILL)
        except ProcessLookupError:
            pass
        os.waitpid(pid, 0)
        return "hang", None
    _, status = os.waitpid(pid, 0)
    if os.WIFSIGNALED(status):
        return "signal", os.WTERMSIG(status)
    code = os.WEXITSTATUS(status)
    data = b"".join(buf)
    if code == 0 and data:
        try:
            return "result", pickle.loads(data)
        except Exception:
            return "exit", -1
    return "exit", code


def call(fn, arg, timeout=LIFE_TIMEOUT):
    pid, rfd = spawn(fn, arg, timeout)
    return collect(pid, rfd, timeout)


# --------------------------------------------------------------------------
# faults applied to the directory between lifetimes
# --------------------------------------------------------------------------

def _resolve(spec, n):
    kind, v = spec
    if kind == "abs":
        return max(0, min(int(v), n))
    if kind == "end":
        return max(0, min(n, n + int(v)))
    return max(0, min(n, int(n * float(v))))


def cache_files(D):
    """Regular files in D, largest first (the database, not a lock or temp file)."""
    try:
        names = sorted(os.listdir(D))
    except OSError:
        return []
    paths = [os.path.join(D, x) for x in names if os.path.isfile(os.path.join(D, x))]
    return sorted(paths, key=lambda p: (-os.path.getsize(p), p))


def apply_fault(D, f, target_name=None):
    """Returns a dict describing what actually happened (effective or not)."""
    kind = f["f"]
    files = cache_files(D)
    if target_name:
        files = [p for p in files if os.path.basename(p) == target_name] or files
    eff = {"f": kind, "effective": False}
    if kind == "rm_dir":
        if os.path.isdir(D):
            shutil.rmtree(D)
            eff["effective"] = True
        return eff
    if kind == "empty_dir":
        for p in cache_files(D):
            os.unlink(p)
            eff["effective"] = True
        return eff
    if not files:
        return eff
    if kind == "mtime" and f.get("target") == "all":
        for q in files:
            st_ = os.stat(q)
            t_new = st_.st_mtime + float(f.get("delta", 0))
            os.utime(q, (t_new, t_new))
        eff["effective"] = True
        eff["delta"] = f.get("delta")
        return eff
    t = int(f.get("target", 0))     # 0 = largest file (the database), 1 = next (a sidecar, lock, temp ...)
    if t >= len(files):
        return eff
    p = files[t]
    eff["target"] = t
    data = open(p, "rb").read()
    n = len(data)
    eff["len_before"] = n
    new = None
    if kind == "truncate":
        k = _resolve(f["at"], n)
        new = data[:k]
        eff["at"] = k
    elif kind == "zero_tail":
        k = _resolve(f["at"], n)
        new = data[:k] + bytes(n - k)
        eff["at"] = k
    elif kind == "lose_file":
        os.unlink(p)
        eff["effective"] = True
        return eff
    elif kind in ("as_dir", "dangling_link", "link_loop", "link_moved", "link_dir"):
        # the entry with the database's name is no longer a regular file: a
        # directory, a link to nowhere (whose target's directory is missing too,
        # so it cannot be created through the link), a link to itself, a link
        # to the intact database moved elsewhere, a link to a directory
        side = D.rstrip("/") + ".side"
        os.makedirs(side, exist_ok=True)
        moved = os.path.join(side, os.path.basename(p))
        if kind == "link_moved":
            os.replace(p, moved)
            os.symlink(moved, p)
        else:
            os.unlink(p)
            if kind == "as_dir":
                os.mkdir(p)
            elif kind == "dangling_link":
                os.symlink(os.path.join(side, "missing", "db"), p)
            elif kind == "link_loop":
                os.symlink(p, p)
            else:
                os.symlink(side, p)
        eff["effective"] = True
        return eff
    elif kind == "flip":
        k = _resolve(f["off"], n)
        if k >= n:
            k = n - 1
        if n:
            b = bytearray(data)
            b[k] ^= 1 << (f.get("bit", 0) % 8)
            new = bytes(b)
            eff["off"] = k
            eff["region"] = region_of(k)
    elif kind == "header":
        a, z = HEADER[f["field"]]
        val = bytes.fromhex(f["value"])
        if n >= z:
            new = data[:a] + val[: z - a].ljust(z - a, b"\0") + data[z:]
            eff["field"] = f["field"]
    elif kind == "garbage":
        rng = random.Random(f.get("seed", 0))
        new = bytes(rng.getrandbits(8) for _ in range(f.get("len", 100)))
    elif kind == "zeros":
        new = bytes(n)
    elif kind == "append":
        rng = random.Random(f.get("seed", 0))
        new = data + bytes(rng.getrandbits(8) for _ in range(f.get("len", 16)))
    elif kind == "mtime":
        # the file's timestamps are moved (restored backup, clock that was wrong
        # when it was written): contents unchanged
        st_ = os.stat(p)
        t_new = st_.st_mtime + float(f.get("delta", 0))
        os.utime(p, (t_new, t_new))
        eff["effective"] = True
        eff["delta"] = f.get("delta")
        return eff
    elif kind == "byte":
        k = _resolve(f["off"], n)
        if n:
            k = min(k, n - 1)
            b = bytearray(data)
            b[k] = f.get("value", 0) % 256
            new = bytes(b)
            eff["off"] = k
            eff["region"] = region_of(k)
    if new is not None and new != data:
        with open(p, "wb") as fh:
            fh.write(new)
        eff["effective"] = True
        eff["len_after"] = len(new)
    return eff


def region_of(off):
    for name, (a, z) in HEADER.items():
        if a <= off < z:
            return name
    return "body"


def dir_state(D):
    if not os.path.isdir(D):
        return "absent"
    fs = cache_files(D)
    if not fs:
        return "empty"
    import hashlib

    h = hashlib.sha256()
    for p in fs:
        h.update(os.path.basename(p).encode())
        h.update(open(p, "rb").read())
    return h.hexdigest()[:16]


# --------------------------------------------------------------------------
# one run (in the run child)
# --------------------------------------------------------------------------

def judge_differential(job, refs, out):
    """Clauses (a), (b), (c) on B (Hyperscan, no cache) versus R (reference)."""
    viol = out["viol"]
    st = out["stats"]
    if "B_err" in refs:
        viol.append({"class": "hs_raises", "where": "construct", "exc": refs["B_err"],
                     "tb": refs.get("B_tb")})
        return
    exts = None
    for ti, text in enumerate(job["texts"]):
        b, r = refs["B"][ti], refs["R"][ti]
        st["diff_texts"] += 1
        if "cand_err" in r:
            st["ref_raises"] += 1
            continue
        if "cand_err" in b:
            viol.append({"class": "hs_raises", "where": "extract_tokens", "exc": b["cand_err"],
                         "text": text, "ti": ti, "tb": b.get("cand_tb")})
            continue
        bk = Counter(k[:-1] for k in b["cand"])
        rk = Counter(k[:-1] for k in r["cand"])
        st["cands_compared"] += sum(rk.values())
        missing = rk - bk
        extra = bk - rk
        if exts is None and (missing or extra):
            exts = tagged_extractors(job["ext"])
        by_key_b = {}
        for k in b["cand"]:
            by_key_b.setdefault(k[:-1], []).append(k[-1])
        by_key_r = {}
        for k in r["cand"]:
            by_key_r.setdefault(k[:-1], []).append(k[-1])
        nonascii = any(ord(c) > 127 for c in text)
        for k, cnt in sorted(missing.items(), key=repr):
            pos = by_key_r[k][0]
            s, e = k[1], k[2]
            near = text[max(0, s - 1): e + 1]
            if nonascii and regex_is_loose(exts[pos].regex) and any(ord(c) > 127 for c in near):
                st["out_of_domain"] += 1
                continue
            # Hyperscan reports one start (the leftmost) per end offset.  When the
            # reference's previous match of the same pattern consumed the boundary
            # in front of a longer reading, the reference restarts later and finds
            # a token that Hyperscan only reports in its longer, leftmost form.
            shadow = [h for h in b["cand"] if h[-1] == pos and h[2] == e and h[1] < s]
            shadowed = False
            if shadow:
                s_l = min(h[1] for h in shadow)
                prev_ends = [q[2] for q in r["cand"] if q[-1] == pos and q[2] < s]
                shadowed = any(s_l - 1 <= pe <= s - 1 for pe in prev_ends)
            viol.append({"class": "missing_candidate", "text": text, "ti": ti,
                         "token": list(k[:4]), "ext_pos": pos,
                         "shadowed_by_leftmost": shadowed or None,
                         "neighbour_nonascii": bool(
                             (s > 0 and ord(text[s - 1]) > 127) or (e < len(text) and ord(text[e]) > 127))})
        for k, cnt in sorted(extra.items(), key=repr):
            pos = by_key_b[k][0]
            st["extras_checked"] += 1
            s, e = k[1], k[2]
            groups = dict((a, v) for a, v in k[4])
            ok = False
            if 0 <= pos < len(exts):
                try:
                    ok = genuine(exts[pos], text, s, e, groups)
                except Exception:
                    ok = False
            if ok:
                st["extras_genuine"] += 1
                continue
            near = text[max(0, s - 1): e + 1]
            if nonascii and 0 <= pos < len(exts) and regex_is_loose(exts[pos].regex) \
                    and any(ord(c) > 127 for c in near):
                st["out_of_domain"] += 1
                continue
            viol.append({"class": "bogus_candidate", "text": text, "ti": ti,
                         "token": list(k[:4]), "ext_pos": pos})
        # clause (c)
        if not missing and not extra:
            spans = {}
            for k in bk:
                spans.setdefault((k[1], k[2]), []).append(k)
            if all(len(v) == 1 for v in spans.values()) and not job.get("cands_only"):
                st["cits_compared"] += 1
                if "cits_err" in r:
                    st["ref_raises"] += 1
                elif "cits_err" in b:
                    viol.append({"class": "hs_raises", "where": "get_citations",
                                 "exc": b["cits_err"], "text": text, "ti": ti, "tb": b.get("cits_tb")})
                elif b["cits_d"] != r["cits_d"]:
                    viol.append({"class": "citation_mismatch", "text": text, "ti": ti,
                                 "hyperscan": b["cits"], "reference": r["cits"]})


def new_stats():
    return {"diff_texts": 0, "cands_compared": 0, "extras_checked": 0, "extras_genuine": 0,
            "out_of_domain": 0, "cits_compared": 0, "ref_raises": 0,
            "lifetimes": 0, "life_ok": 0, "life_crashed": 0, "life_enospc": 0,
            "crash_fired": Counter(), "faults": Counter(), "faults_effective": Counter(),
            "oserr_fired": Counter(),
            "load_outcomes": Counter(), "recompiled": 0, "loaded": 0,
            "virtual_sleeps": 0, "virtual_sleep_s": 0.0,
            "partial_read_observed": 0, "pairs": 0, "pair_steps": 0, "pair_inconclusive": 0,
            "states": [], "start_states": Counter()}


def exec_run(job):
    """Runs in a forked child of the pristine parent."""
    base = os.path.join(SCRATCH, f"eyecite-verif-{os.getpid()}")
    shutil.rmtree(base, ignore_errors=True)
    os.makedirs(base)
    D = os.path.join(base, "cache")
    out = {"viol": [], "stats": new_stats(), "log": []}
    st = out["stats"]
    try:
        kind, refs = call(refs_run, job)
        if kind != "result":
            out["harness"] = f"references: {kind} {refs}"
            return out
        judge_differential(job, refs, out)
        if "B_err" in refs:
            return _finish(out)
        Bd = [(it.get("cand_d"), it.get("cits_d")) for it in refs["B"]]
        last_fault = None
        for si, step in enumerate(job["steps"]):
            k = step["k"]
            if k == "fault":
                eff = apply_fault(D, step)
                st["faults"][step["f"]] += 1
                if eff["effective"]:
                    st["faults_effective"][step["f"]] += 1
                    last_fault = eff
                out["log"].append(["fault", si, eff])
            elif k == "life":
                start = dir_state(D)
                st["states"].append(start)
                kind2, res = call(node_run, (job, step, D, None), life_timeout(job))
                st["lifetimes"] += 1
                judged = _judge_life(job, step, si, kind2, res, Bd, out, last_fault, start)
                out["log"].append(["life", si, judged])
                if judged in ("ok", "enospc"):
                    last_fault = None if judged == "ok" else last_fault
            elif k == "pair":
                st["states"].append(dir_state(D))
                _run_pair(job, step, si, D, Bd, out)
        st["states"].append(dir_state(D))
    finally:
        shutil.rmtree(base, ignore_errors=True)
    return _finish(out)


def _finish(out):
    st = out["stats"]
    for k in ("crash_fired", "faults", "faults_effective", "load_outcomes", "start_states", "oserr_fired"):
        st[k] = dict(st[k])
    return out


def _judge_life(job, step, si, kind, res, Bd, out, last_fault, start, who=None):
    st = out["stats"]
    viol = out["viol"]
    ctx = {"step": si, "after_fault": last_fault, "start_state": start}
    if who is not None:
        ctx["node"] = who
    if kind == "hang":
        viol.append(dict(ctx, **{"class": "cache_hang"}))
        return "hang"
    if kind == "signal":
        viol.append(dict(ctx, **{"class": "cache_crash", "signal": res}))
        return "signal"
    if kind == "exit":
        if res == storage.CRASH_EXIT and step.get("crash"):
            st["life_crashed"] += 1
            c = step["crash"]
            st["crash_fired"]["wbytes" if "wbytes" in c else f"op-{c.get('when', 'before')}"] += 1
            return "crashed"
        viol.append(dict(ctx, **{"class": "cache_crash", "exit": res}))
        return "exit"
    if res.get("status") == "harness":
        out["harness"] = res.get("tb")
        return "harness"
    for lo in res.get("load", []):
        st["load_outcomes"][lo] += 1
    for eff in res.get("mid_eff", []):
        st["faults"]["midlife:" + eff["f"]] += 1
        if eff.get("effective"):
            st["faults_effective"]["midlife:" + eff["f"]] += 1
    for o in res.get("ops", []):
        if isinstance(o[3], str) and o[3].startswith("injected-"):
            st["oserr_fired"][f"{o[3][9:]}@{o[1]}"] += 1
    names = [o[1] for o in res.get("ops", [])]
    wrote = any(nm in ("write", "os.write") for nm in names)
    read = "read" in names
    if wrote:
        st["recompiled"] += 1
    elif read:
        st["loaded"] += 1
    if res.get("slept") and res["slept"][0]:
        st["virtual_sleeps"] = st.get("virtual_sleeps", 0) + res["slept"][0]
        st["virtual_sleep_s"] = st.get("virtual_sleep_s", 0) + res["slept"][1]
    if res["status"] == "hang":
        viol.append(dict(ctx, **{"class": "cache_hang", "slept_s": res.get("slept_s"),
                                 "how": "slept more than 15 simulated minutes"}))
        return "hang"
    if res["status"] == "enospc":
        st["life_enospc"] += 1
        return "enospc"
    if res["status"] == "raised":
        v = dict(ctx, **{"class": "cache_raises", "exc": res.get("exc"), "where": res.get("where"),
                         "tb": res.get("tb"), "load": res.get("load")})
        if last_fault:
            v["fault_kind"] = last_fault.get("f")
            v["fault_field"] = last_fault.get("field") or last_fault.get("region")
        viol.append(v)
        return "raised"
    st["life_ok"] += 1
    if step.get("ext_alt") is not None or step.get("flag_toggle"):
        return "ok-alt"
    if step.get("ext_perm") is not None:
        # same patterns, other order: the candidate multiset must be B's (which
        # of two candidates on one span wins may legitimately follow the order)
        for ti, (it, b) in enumerate(zip(res["texts"], Bd)):
            if it.get("cand_d") != b[0]:
                viol.append(dict(ctx, **{"class": "cache_tokens_differ", "ti": ti, "variant": "permuted",
                                         "text": job["texts"][ti], "load": res.get("load")}))
                break
        return "ok-perm"
    got = [(it.get("cand_d"), it.get("cits_d")) for it in res["texts"]]
    for ti, (g, b) in enumerate(zip(got, Bd)):
        if g != b:
            viol.append(dict(ctx, **{"class": "cache_tokens_differ", "ti": ti,
                                     "text": job["texts"][ti],
                                     "load": res.get("load")}))
            break
    return "ok"


def _run_pair(job, step, si, D, Bd, out):
    """Two nodes started against the same directory; each is parked before every
    storage operation and every write chunk; the `sched` stream (or an explicit
    order) releases one at a time."""
    st = out["stats"]
    st["pairs"] += 1
    nodes = []
    for who in (0, 1):
        st_r, st_w = os.pipe()
        go_r, go_w = os.pipe()
        lives = step.get("lives") or [step.get("life", {}), step.get("life", {})]
        pid, rfd = spawn(node_run, (job, dict(lives[who]), D, (st_w, go_r)))
        os.close(st_w)
        os.close(go_r)
        nodes.append({"pid": pid, "rfd": rfd, "st": st_r, "go": go_w, "state": "running",
                      "buf": b"", "who": who, "last": None})
    rng = random.Random(step.get("sched_seed", 0))
    explicit = list(step.get("order") or [])
    order = []
    t0 = time.monotonic()
    inconclusive = False

    def wait_msg(nd):
        # a released node either parks again or finishes
        while b"\n" not in nd["buf"]:
            left = life_timeout(job) - (time.monotonic() - t0)
            if left <= 0:
                return None
            r, _, _ = select.select([nd["st"]], [], [], min(left, 1.0))
            if r:
                chunk = os.read(nd["st"], 65536)
                if not chunk:
                    return ["eof"]
                nd["buf"] += chunk
        line, nd["buf"] = nd["buf"].split(b"\n", 1)
        return json.loads(line)

    for nd in nodes:
        m = wait_msg(nd)
        _pair_state(nd, m)
    steps = 0
    while True:
        parked = [nd for nd in nodes if nd["state"] in ("parked", "blocked")]
        if not parked:
            break
        free = [nd for nd in parked if nd["state"] == "parked"]
        if not free:
            # everybody waits for a lock held by somebody parked: deadlock in the
            # model -> abandon, never a verdict
            inconclusive = True
            break
        if explicit:
            w = explicit.pop(0)
            cand = [nd for nd in free if nd["who"] == w] or free
            nd = cand[0]
        else:
            # bias: let one node run several steps in a row sometimes, so that a
            # reader can observe any prefix another node has written
            nd = free[rng.randrange(len(free))]
        order.append(nd["who"])
        steps += 1
        if steps > 20000:
            inconclusive = True
            break
        os.write(nd["go"], b"g")
        m = wait_msg(nd)
        if m is None:
            inconclusive = True
            break
        _pair_state(nd, m)
        if nd["last"] and nd["last"][0] == "op" and nd["last"][2] == "read":
            other = nodes[1 - nd["who"]]
            if other["last"] and other["last"][0] == "chunk":
                st["partial_read_observed"] += 1
    st["pair_steps"] += steps
    out["log"].append(["pair", si, {"order_len": len(order), "inconclusive": inconclusive}])
    for nd in nodes:
        try:
            os.close(nd["go"])
        except OSError:
            pass
        if inconclusive:
            try:
                os.kill(nd["pid"], signal.SIGKILL)
            except ProcessLookupError:
                pass
        kind, res = collect(nd["pid"], nd["rfd"], 30 if inconclusive else life_timeout(job))
        try:
            os.close(nd["st"])
        except OSError:
            pass
        if inconclusive:
            continue
        st["lifetimes"] += 1
        lives = step.get("lives") or [step.get("life", {}), step.get("life", {})]
        _judge_life(job, lives[nd["who"]], si, kind, res, Bd, out, None, "concurrent", who=nd["who"])
    if inconclusive:
        st["pair_inconclusive"] += 1


def _pair_state(nd, m):
    if m is None or m[0] in ("eof", "done"):
        nd["state"] = "done"
        nd["last"] = None
    elif m[0] == "park":
        nd["last"] = m[1]
        nd["state"] = "blocked" if m[1][0] == "blocked" else "parked"


# --------------------------------------------------------------------------
# generation (orchestrator side; pure function of the run seed and the atlas)
# --------------------------------------------------------------------------

class RunGen:
    def __init__(self, atlas, tier):
        self.atlas = atlas
        self.tier = tier
        self.matching = [a for a in atlas if a["x"]]
        self.mbfrags = [a for a in self.matching if any(ord(c) > 127 for c in a["t"])]
        self.by_x = {}
        from eyecite.tokenizers import EXTRACTORS

        self.n_ext = len(EXTRACTORS)
        self.special = [i for i, e in enumerate(EXTRACTORS)
                        if getattr(e.constructor, "__self__", None).__name__ != "CitationToken"]
        self.paras = []
        p = os.path.join(bootstrap.REPO, "tests", "assets", "opinion.txt")
        try:
            txt = open(p, encoding="utf8").read()
            self.paras = [x.strip() for x in txt.split("\n\n") if len(x.strip()) > 80]
        except OSError:
            pass

    def ext_list(self, g, full=False):
        if full:
            return "all", list(self.matching)
        if g.random() < 0.04:
            # degenerate lists: a single extractor
            one = self.matching[g.randrange(len(self.matching))]
            idx = [one["x"][0]] if g.random() < 0.7 else [self.special[g.randrange(len(self.special))]]
            return idx, [f for f in [one] if set(f["x"]) <= set(idx)]
        n_frag = g.choice([3, 6, 12, 25, 50, 100])
        frags = [self.matching[g.randrange(len(self.matching))] for _ in range(n_frag)]
        if self.mbfrags:
            frags.append(self.mbfrags[g.randrange(len(self.mbfrags))])
        idx = set(self.special)
        for f in frags:
            idx.update(f["x"])
        for _ in range(g.choice([0, 5, 20, 60])):
            idx.add(g.randrange(self.n_ext))
        idx = sorted(idx)
        if len(idx) > 400:
            keep = set(self.special)
            rest = [i for i in idx if i not in keep]
            g.shuffle(rest)
            idx = sorted(keep | set(rest[: 400 - len(keep)]))
        ok = set(idx)
        frags = [f for f in frags if set(f["x"]) <= ok]
        return idx, frags

    def text(self, g, tg, frags, classes):
        """One probe text; records multi-byte adjacency classes."""
        mb = textgen.MB_ALL
        parts = []
        n_items = g.randrange(1, 5)
        prev_was_cite = False
        if g.random() < 0.5:
            parts.append(tg.words(g.randrange(1, 5)) + " ")
        for i in range(n_items):
            fr = frags[g.randrange(len(frags))] if frags and g.random() < 0.85 else None
            y = g.random()
            if y < 0.08:
                # special tokens in every letter case (case-insensitive patterns)
                w = g.choice(["id.", "ibid.", "supra", "see", "citing", "v.", "aff'd", "denied"])
                item = g.choice([w.upper(), w.capitalize(), w, w.swapcase()])
                if g.random() < 0.5:
                    item += g.choice([",", " at 5", ", at 12-13", " §5"])
                classes["special-case-variant"] += 1
            elif y < 0.11:
                item = "".join(mb[g.randrange(len(mb))] for _ in range(g.choice([8, 40, 200])))
                classes["long-multibyte-run"] += 1
            elif fr is not None and g.random() < 0.5:
                item = tg.core(fr)          # the bare token, boundaries decided below
            elif fr is not None:
                item = tg.cite(fr)
            else:
                item = tg.reference()
            if any(ord(c) > 127 for c in item):
                classes["inside"] += 1
            pre = post = ""
            x = g.random()
            if x < 0.55:
                d = g.randrange(3)
                ch = mb[g.randrange(len(mb))]
                pre = ch + ["", "(", " ("][d]
                classes[f"before-d{d}"] += 1
            y = g.random()
            if y < 0.55:
                d = g.randrange(3)
                ch = mb[g.randrange(len(mb))]
                post = ["", ")", ") "][d] + ch
                classes[f"after-d{d}"] += 1
            if prev_was_cite and (pre or g.random() < 0.3):
                classes["between"] += 1
            parts.append(pre + item + post)
            prev_was_cite = True
            if i < n_items - 1:
                sep = g.choice(["", " ", ", ", "; ", " see ", "\n", " — ", "—", "” “"])
                if sep == "":
                    classes["abutting"] += 1
                parts.append(sep)
        if g.random() < 0.3:
            parts.append(g.choice([".", "\n", " ", "”", "é"]))
        text = "".join(parts)
        return text

    def texts(self, g, frags, classes, n):
        tg = textgen.Gen(g, self.atlas)
        tg.full = [f for f in frags if f["form"] == "full"] or tg.full[:1]
        out = []
        for _ in range(n):
            x = g.random()
            if x < 0.8 or not self.paras:
                t = self.text(g, tg, frags, classes)
            elif x < 0.9:
                t = tg.document(n_items=g.randrange(1, 4), frags=frags or None,
                                mb=textgen.MB_ALL, mb_rate=0.6)
            else:
                para = self.paras[g.randrange(len(self.paras))][:600]
                k = g.randrange(1, 6)
                chars = list(para)
                for _ in range(k):
                    pos = g.randrange(len(chars) + 1)
                    chars.insert(pos, textgen.MB_ALL[g.randrange(len(textgen.MB_ALL))])
                t = "".join(chars)
                classes["spliced-paragraph"] += 1
            if textgen.in_c14_domain(t):
                out.append(t)
        return out or ["1 U.S. 1"]

    def crash_plan(self, g):
        x = g.random()
        if x < 0.45:
            return {"op": g.randrange(1, 9), "when": g.choice(["before", "after"])}
        spec = g.choice(LEN_CLASSES + [["frac", g.random()], ["frac", g.random()]])
        # resolved against a nominal size at execution time is impossible (the
        # node does not know the size before writing) -> use absolute byte counts
        if spec[0] == "abs":
            n = spec[1]
        elif spec[0] == "end":
            n = max(1, 200000 + spec[1])
        else:
            n = int(spec[1] * 400000)
        return {"wbytes": max(0, n)}

    def fault(self, g):
        f = self._fault(g)
        if f["f"] not in ("rm_dir", "empty_dir") and g.random() < 0.25:
            f["target"] = g.choice([1, 1, 2])
        return f

    def _fault(self, g):
        if g.random() < 0.06:
            return {"k": "fault", "f": "mtime",
                    "delta": g.choice([-86400.0 * 400, 86400.0 * 400, -3600.0, 3600.0, -86400.0 * 7300])}
        x = g.random()
        if x < 0.22:
            at = g.choice(LEN_CLASSES) if g.random() < 0.7 else ["frac", round(g.random(), 4)]
            return {"k": "fault", "f": "truncate", "at": at}
        if x < 0.30:
            return {"k": "fault", "f": "zero_tail",
                    "at": g.choice([["frac", round(g.random(), 4)], ["abs", 4096], ["abs", 32], ["end", -4096]])}
        if x < 0.33:
            return {"k": "fault", "f": "lose_file"}
        if x < 0.36:
            return {"k": "fault", "f": g.choice(["as_dir", "dangling_link", "link_loop", "link_moved", "link_dir"])}
        if x < 0.56:
            region = g.choice(list(HEADER) + ["body", "body", "body"])
            if region == "body":
                off = g.choice([["frac", round(g.random(), 5)], ["abs", 32 + g.randrange(4096)], ["end", -1 - g.randrange(64)]])
            else:
                a, z = HEADER[region]
                off = ["abs", g.randrange(a, z)]
            return {"k": "fault", "f": "flip", "off": off, "bit": g.randrange(8)}
        if x < 0.70:
            field = g.choice(list(FOREIGN))
            return {"k": "fault", "f": "header", "field": field, "value": g.choice(FOREIGN[field])}
        if x < 0.76:
            return {"k": "fault", "f": "garbage", "len": g.choice([1, 31, 32, 33, 4096, 100000]),
                    "seed": g.randrange(1 << 30)}
        if x < 0.80:
            return {"k": "fault", "f": "zeros"}
        if x < 0.86:
            return {"k": "fault", "f": "append", "len": g.choice([1, 16, 4096]), "seed": g.randrange(1 << 30)}
        if x < 0.92:
            return {"k": "fault", "f": "byte", "off": ["frac", round(g.random(), 5)], "value": g.randrange(256)}
        if x < 0.96:
            return {"k": "fault", "f": "rm_dir"}
        return {"k": "fault", "f": "empty_dir"}

    def run(self, run_seed, full=False):
        st = seeds.Streams(run_seed)
        g = st.get("gen")
        ext, frags = self.ext_list(g, full=full)
        classes = Counter()
        texts = self.texts(g, frags, classes, g.randrange(4, 12) if not full else 40)
        fg = st.get("faults")
        steps = []
        if not full and g.random() < 0.03:
            # differential only, on one long document: offsets beyond 65535 bytes,
            # thousands of matches (no lifetimes: they would re-tokenise it each time)
            long = (" ".join(texts) + "\n") * 400
            classes["long-document"] += 1
            return {"seed": run_seed, "kind": "swarm", "ext": ext, "chunk": 65536,
                    "texts": [long[: g.choice([70000, 100000])]], "steps": [], "classes": dict(classes)}
        n_life = fg.randrange(3, 9) if not full else fg.randrange(2, 4)
        if fg.random() < 0.2:
            steps.append(self.fault(fg))      # pre-damaged / absent directory
        p_pair = 0.10 if self.tier == "thorough" else 0.04
        toggled = False
        for i in range(n_life):
            life = {"k": "life"}
            x = fg.random()
            if x < 0.30 and not full:
                life["crash"] = self.crash_plan(fg)
            elif x < 0.34:
                life["enospc"] = fg.choice([0, 1, 31, 32, 4096, 100000])
            elif x < 0.36:
                life["oserr"] = {"op": fg.randrange(1, 10),
                                 "errno": fg.choice(["EIO", "EACCES", "EMFILE", "EROFS", "EINTR"])}
            elif x < 0.41 and not full and isinstance(ext, list) and len(ext) > 8:
                # a database of another extractor list is left in the directory
                life["ext_alt"] = sorted(set(ext[: len(ext) // 2]) | set(self.special))
            elif x < 0.46 and not full and isinstance(ext, list) and frags and not toggled:
                # ... or of the *same expressions with other flags* (a list whose
                # fingerprint must differ): case-insensitive variant of one extractor
                fr = frags[fg.randrange(len(frags))]
                pos = [ext.index(i2) for i2 in fr["x"] if i2 in ext]
                if pos:
                    life["flag_toggle"] = pos
                    toggled = True
                    texts.append(fr["t"].lower())
                    texts.append("see " + fr["t"].swapcase() + ", and")
            elif x < 0.50 and not full and isinstance(ext, list):
                life["ext_perm"] = fg.randrange(1 << 30)
            foreign_prev = bool(steps) and steps[-1].get("k") == "life" and (
                steps[-1].get("ext_alt") is not None or steps[-1].get("flag_toggle")
                or steps[-1].get("ext_perm") is not None)
            if foreign_prev and "crash" not in life and fg.random() < 0.5 and len(life) == 1:
                life["crash"] = self.crash_plan(fg)
            if fg.random() < 0.2:
                life["pre_instance"] = fg.choice([1, 2, 5])
            if fg.random() < 0.25:
                life["instances"] = fg.choice([2, 3])
            if fg.random() < 0.08 and "oserr" not in life:
                life["mid_inst" if life.get("instances") and fg.random() < 0.5 else "mid"] = {
                    k: v for k, v in self.fault(fg).items() if k not in ("k", "target")}
            if fg.random() < 0.15:
                life["clock"] = fg.choice([3600.0, -3600.0, 86400.0 * 400, -86400.0 * 400,
                                           86400.0 * 3650, -86400.0 * 3650])
            if 0.50 <= x < 0.50 + p_pair and not full:
                pair = {"k": "pair", "sched_seed": fg.randrange(1 << 30), "life": {}}
                if isinstance(ext, list) and len(ext) > 8 and fg.random() < 0.4:
                    # the two processes use different extractor lists
                    pair["lives"] = [{}, {"ext_alt": sorted(set(ext[: len(ext) // 2]) | set(self.special))}]
                steps.append(pair)
            else:
                steps.append(life)
            for _ in range(fg.choice([0, 1, 1, 1, 2])):
                steps.append(self.fault(fg))
        steps.append({"k": "life"})
        steps.append({"k": "life"})
        return {"seed": run_seed, "kind": "swarm" if not full else "full", "ext": ext,
                "chunk": g.choice([512, 4096, 65536, 1 << 20]),
                "texts": texts, "steps": steps, "classes": dict(classes)}

    def feature_jobs(self, root):
        """Pattern-feature enumeration: every extractor whose pattern has a
        non-ASCII character (`§?`, `¶`, `’`, classes like `[§|s]`), a `{,n}`
        repetition or a flag is exercised on *its own* atlas fragments and on
        systematic variants of them (sign doubled, sign removed, space after the
        sign removed, letter case changed, multi-byte neighbours).  Differential
        only (no lifetimes).  A rare pattern feature is thereby reached by
        construction instead of by the luck of the swarm."""
        from eyecite.tokenizers import EXTRACTORS

        feat = []
        for i, e in enumerate(EXTRACTORS):
            if any(ord(c) > 127 for c in e.regex) or "{," in e.regex or e.flags:
                feat.append(i)
        fset = set(feat)
        by_ext = {}
        for a in self.matching:
            for i in a["x"]:
                if i in fset:
                    by_ext.setdefault(i, []).append(a)
        jobs = []
        chunk = 120
        for c0 in range(0, len(feat), chunk):
            part = feat[c0:c0 + chunk]
            ext = sorted(set(part) | set(self.special))
            texts = []
            for i in part:
                for a in by_ext.get(i, [])[:2]:
                    t = a["t"]
                    vs = [t, "“" + t + "”", t + "é", "—" + t]
                    for sign in ("§", "¶"):
                        if sign in t:
                            vs += [t.replace(sign, sign * 2, 1), t.replace(sign + " ", sign, 1),
                                   t.replace(sign, "", 1), t.replace(sign, sign + sign + " ", 1)]
                    if "’" in t:
                        vs += [t.replace("’", "'"), t.replace("’", "")]
                    vs += [t.upper(), t.lower()]
                    for v in vs:
                        if v not in texts and textgen.in_c14_domain(v):
                            texts.append(v)
            for t0 in range(0, len(texts), 80):
                jobs.append({"seed": seeds.h64(root, "feature", c0, t0), "kind": "feature",
                             "cell": f"feature-{c0}-{t0}", "ext": ext, "chunk": 65536,
                             "texts": texts[t0:t0 + 80], "classes": {}, "steps": []})
        return jobs

    def grid(self, root):
        """The complete fault-class grid against a freshly written cache."""
        st = seeds.Streams(seeds.h64(root, "grid"))
        g = st.get("gen")
        ext, frags = self.ext_list(g)
        classes = Counter()
        texts = self.texts(g, frags, classes, 6)
        cells = []
        for at in LEN_CLASSES:
            cells.append({"f": "truncate", "at": at})
        for at in LEN_CLASSES:
            # a zero-filled tail from every header boundary and length class
            # (from byte 20 on: checksum and contents are zero -- and the checksum
            # of zeros is zero)
            cells.append({"f": "zero_tail", "at": at})
        for field, (a, z) in HEADER.items():
            for off in range(a, z):
                cells.append({"f": "flip", "off": ["abs", off], "bit": (off * 3) % 8})
            for v in FOREIGN[field]:
                cells.append({"f": "header", "field": field, "value": v})
        for off in (["abs", 32], ["abs", 33], ["abs", 4096], ["frac", 0.25], ["frac", 0.5],
                    ["frac", 0.75], ["end", -4096], ["end", -2], ["end", -1]):
            cells.append({"f": "flip", "off": off, "bit": 0})
            cells.append({"f": "byte", "off": off, "value": 0xA5})
        for n in (1, 31, 32, 33, 4096, 100000):
            cells.append({"f": "garbage", "len": n, "seed": n})
        cells.append({"f": "zeros"})
        for n in (1, 16, 4096):
            cells.append({"f": "append", "len": n, "seed": n})
        cells += [{"f": "lose_file"}, {"f": "rm_dir"}, {"f": "empty_dir"}]
        cells += [{"f": k} for k in ("as_dir", "dangling_link", "link_loop", "link_moved", "link_dir")]
        jobs = []
        for ci, cell in enumerate(cells):
            jobs.append({"seed": seeds.h64(root, "grid", ci), "kind": "grid", "cell": ci,
                         "ext": ext, "chunk": 65536, "texts": texts, "classes": dict(classes),
                         "steps": [{"k": "life"}, dict(cell, k="fault"), {"k": "life", "instances": 2}, {"k": "life"}]})
        # crash points of a clean first lifetime: every operation, before and after,
        # and every write-length class
        for opk in range(1, 9):
            for when in ("before", "after"):
                jobs.append({"seed": seeds.h64(root, "grid-crash", opk, when), "kind": "grid",
                             "cell": f"crash-op{opk}-{when}", "ext": ext, "chunk": 4096,
                             "texts": texts, "classes": {},
                             "steps": [{"k": "life", "crash": {"op": opk, "when": when}},
                                       {"k": "life"}, {"k": "life"}]})
        for at in LEN_CLASSES:
            n = at[1] if at[0] == "abs" else (100000 if at[0] == "frac" else max(1, 200000 + at[1]))
            jobs.append({"seed": seeds.h64(root, "grid-crash-w", n), "kind": "grid",
                         "cell": f"crash-wbytes-{n}", "ext": ext, "chunk": 4096,
                         "texts": texts, "classes": {},
                         "steps": [{"k": "life", "crash": {"wbytes": n}}, {"k": "life"}, {"k": "life"}]})
        # a database of another list / other order / other flags is in the
        # directory, then the real list's first lifetime dies at every point
        half = sorted(set(ext[: len(ext) // 2]) | set(self.special))
        cit_pos = [i for i, x in enumerate(ext) if x not in self.special][:1]
        foreign = [("alt", {"ext_alt": half}), ("perm", {"ext_perm": 12345})]
        if cit_pos:
            foreign.append(("toggle", {"flag_toggle": cit_pos}))
        for fname, fstep in foreign:
            for opk in range(1, 11):
                for when in ("before", "after"):
                    jobs.append({"seed": seeds.h64(root, "grid-foreign", fname, opk, when), "kind": "grid",
                                 "cell": f"foreign-{fname}-crash-op{opk}-{when}", "ext": ext, "chunk": 4096,
                                 "texts": texts, "classes": {},
                                 "steps": [dict(fstep, k="life"),
                                           {"k": "life", "crash": {"op": opk, "when": when}},
                                           {"k": "life"}, dict(fstep, k="life"), {"k": "life"}]})
            jobs.append({"seed": seeds.h64(root, "grid-foreign", fname), "kind": "grid",
                         "cell": f"foreign-{fname}", "ext": ext, "chunk": 65536, "texts": texts, "classes": {},
                         "steps": [{"k": "life"}, dict(fstep, k="life"), {"k": "life"},
                                   dict(fstep, k="life"), {"k": "life"}]})
        # files other than the database (sidecars, manifests, lock or temp files a
        # future implementation may keep): every damage class on the 2nd and 3rd file
        for tgt in (1, 2):
            small = [{"f": "truncate", "at": ["abs", 0]}, {"f": "truncate", "at": ["abs", 1]},
                     {"f": "truncate", "at": ["frac", 0.5]}, {"f": "truncate", "at": ["end", -1]},
                     {"f": "zeros"}, {"f": "lose_file"},
                     {"f": "garbage", "len": 1, "seed": 1}, {"f": "garbage", "len": 64, "seed": 2},
                     {"f": "garbage", "len": 4096, "seed": 3},
                     {"f": "append", "len": 1, "seed": 4}, {"f": "append", "len": 16, "seed": 5}]
            for off in (["abs", 0], ["abs", 1], ["frac", 0.5], ["end", -1]):
                for bit in (0, 7):
                    small.append({"f": "flip", "off": off, "bit": bit})
                small.append({"f": "byte", "off": off, "value": 0xFF})
                small.append({"f": "byte", "off": off, "value": 0x00})
            for ci, cell in enumerate(small):
                jobs.append({"seed": seeds.h64(root, "grid-other", tgt, ci), "kind": "grid",
                             "cell": f"file{tgt}-{ci}", "ext": ext, "chunk": 65536, "texts": texts,
                             "classes": {},
                             "steps": [{"k": "life"}, dict(cell, k="fault", target=tgt), {"k": "life"}, {"k": "life"}]})
        # two processes starting together: on an absent directory, on a damaged
        # cache, after a crashed writer; several interleavings each
        for si in range(6):
            for nm, pre in (("empty", []), ("truncated", [{"k": "life"}, {"k": "fault", "f": "truncate", "at": ["frac", 0.5]}]),
                            ("after-crash", [{"k": "life", "crash": {"wbytes": 4096}}]),
                            ("after-crash-op", [{"k": "life", "crash": {"op": 3 + si % 4, "when": "after"}}])):
                jobs.append({"seed": seeds.h64(root, "grid-pair", nm, si), "kind": "grid",
                             "cell": f"pair-{nm}-{si}", "ext": ext, "chunk": [512, 4096, 65536][si % 3],
                             "texts": texts, "classes": {},
                             "steps": pre + [{"k": "pair", "sched_seed": seeds.h64(root, "pairseed", nm, si) % (1 << 30), "life": {}},
                                             {"k": "life"}, {"k": "life"}]})
        # clock skew and jumps between lifetimes, stale or future file timestamps
        for ci, (c1, c2, dm) in enumerate([(0, 86400.0 * 800, None), (86400.0 * 800, 0, None), (0, -86400.0 * 800, None),
                                           (-86400.0 * 800, 0, None), (0, 0, 86400.0 * 800), (0, 0, -86400.0 * 8000),
                                           (3600.0, -3600.0, None), (0, 86400.0 * 800, -86400.0 * 8000)]):
            steps = [{"k": "life", "clock": c1}]
            if dm is not None:
                steps.append({"k": "fault", "f": "mtime", "delta": dm})
            steps += [{"k": "life", "clock": c2}, {"k": "life", "clock": c2, "crash": {"op": 5, "when": "after"}},
                      {"k": "life", "clock": c1}, {"k": "life"}]
            jobs.append({"seed": seeds.h64(root, "grid-clock", ci), "kind": "grid", "cell": f"clock-{ci}",
                         "ext": ext, "chunk": 4096, "texts": texts, "classes": {}, "steps": steps})
        # an unusable cache whose timestamp disagrees with the clock
        dmg = [{"f": "truncate", "at": ["frac", 0.5]}, {"f": "header", "field": "version", "value": "00040405"},
               {"f": "zeros"}, {"f": "garbage", "len": 4096, "seed": 9}, {"f": "truncate", "at": ["abs", 0]}]
        for di, d in enumerate(dmg):
            for ti, (mt, clk) in enumerate([(86400.0 * 800, 0), (-86400.0 * 8000, 0), (0, -86400.0 * 800),
                                            (0, 86400.0 * 800), (3.0, 0), (0, -3.0)]):
                steps = [{"k": "life"}, dict(d, k="fault")]
                if mt:
                    steps.append({"k": "fault", "f": "mtime", "delta": mt, "target": "all"})
                steps += [{"k": "life", "clock": clk}, {"k": "life", "clock": clk}, {"k": "life"}]
                jobs.append({"seed": seeds.h64(root, "grid-dmgtime", di, ti), "kind": "grid",
                             "cell": f"damage{di}-time{ti}", "ext": ext, "chunk": 65536, "texts": texts,
                             "classes": {}, "steps": steps})
        # two processes with *different* lists starting together in one directory
        for si in range(12):
            jobs.append({"seed": seeds.h64(root, "grid-pair2", si), "kind": "grid", "cell": f"pair-two-lists-{si}",
                         "ext": ext, "chunk": [512, 4096, 65536][si % 3], "texts": texts, "classes": {},
                         "steps": [{"k": "pair", "sched_seed": seeds.h64(root, "pair2seed", si) % (1 << 30),
                                    "lives": [{}, {"ext_alt": half}] if si % 2 else [{"ext_alt": half}, {}]},
                                   {"k": "life"}, {"k": "life", "ext_alt": half}, {"k": "life", "pre_instance": 1}]})
        # an old leftover of another list, then two processes starting together
        for si in range(10):
            for nm, old in (("old-alt", -86400.0 * 400), ("fresh-alt", 0.0), ("future-alt", 86400.0 * 400)):
                steps = [{"k": "life", "ext_alt": half}]
                if old:
                    steps.append({"k": "fault", "f": "mtime", "delta": old, "target": "all"})
                steps += [{"k": "pair", "sched_seed": seeds.h64(root, "oldpair", nm, si) % (1 << 30), "life": {}},
                          {"k": "life"}, {"k": "life", "ext_alt": half}, {"k": "life"}]
                jobs.append({"seed": seeds.h64(root, "grid-oldpair", nm, si), "kind": "grid",
                             "cell": f"pair-{nm}-{si}", "ext": ext, "chunk": [512, 4096, 65536][si % 3],
                             "texts": texts, "classes": {}, "steps": steps})
        # an existing cache directory that cannot be changed (read-only mount, files
        # owned by another user): reads work, every change fails -- a state of the
        # directory, so these lifetimes are judged in full
        ro_pre = [("intact", []), ("truncated", [{"k": "fault", "f": "truncate", "at": ["frac", 0.5]}]),
                  ("empty-file", [{"k": "fault", "f": "truncate", "at": ["abs", 0]}]),
                  ("foreign-version", [{"k": "fault", "f": "header", "field": "version", "value": "00040405"}]),
                  ("lost", [{"k": "fault", "f": "lose_file"}]), ("zero-tail", [{"k": "fault", "f": "zero_tail", "at": ["abs", 20]}])]
        for nm, pre in ro_pre:
            for en in ("EROFS", "EACCES", "EPERM"):
                jobs.append({"seed": seeds.h64(root, "grid-ro", nm, en), "kind": "grid",
                             "cell": f"readonly-{nm}-{en}", "ext": ext, "chunk": 65536, "texts": texts,
                             "classes": {},
                             "steps": [{"k": "life"}] + pre + [{"k": "life", "readonly": en},
                                                              {"k": "life", "readonly": en, "instances": 2},
                                                              {"k": "life"}, {"k": "life"}]})
        # long documents: offsets beyond 64 KiB / 1 MiB, tens of thousands of hits,
        # and -- every second character being multi-byte -- a multi-byte character
        # across every fixed byte offset for one of the shifts
        small = sorted(set(self.special) | set(ext[:12])) if isinstance(ext, list) else ext
        dense = ("\u201c1 U.S. 1\u201d; \u00a7 2\u2014id. at 3\u00e9 2 F.2d 4 \u00b6 5; supra \u00e9\u00e8\u00ea 5 Cal. 3d 7, 1 Wash. 2d 3; 3 N.Y. 2d 4 "
                 + (texts[0][:120] if texts else "") + " \u00a7\u00a7 7\u20138\n")
        from eyecite.tokenizers import EXTRACTORS as _ALL

        hit = [i for i, e in enumerate(_ALL) if re.search(e.regex, dense, e.flags)]
        small = sorted(set(self.special) | set(hit[:40]))
        for size in (70_000, 140_000, 400_000, 1_300_000):
            for shift in ((0, 1, 2) if size < 1_000_000 else (0, 1)):
                # not periodic: 17 paragraph variants of different lengths, so that
                # fixed byte offsets and fixed hit counts (buffers, batches, windows)
                # fall at ever different places of a paragraph
                paras = [dense[:-1] + " " + " ".join(texts[(i + j) % len(texts)][: 40 + 9 * i] for j in range(1 + i % 3))
                         + f"; see {i + 1} U.S. {i + 2}, {i + 3} (19{10 + i}); id. at {i}; 2 F.2d at {i + 4}\n"
                         for i in range(17)] if texts else [dense]
                reps = size // sum(len(q.encode("utf8")) for q in paras) + 1
                doc = "x" * shift + "".join(paras[(i * (7 + shift)) % len(paras)] for i in range(reps * len(paras)))
                doc = doc.encode("utf8")[:size].decode("utf8", "ignore")
                jobs.append({"seed": seeds.h64(root, "grid-long", size, shift), "kind": "grid",
                             "cell": f"long-{size}-shift{shift}", "ext": small, "chunk": 65536,
                             "texts": [doc], "classes": {"long-document": 1}, "steps": [],
                             "cands_only": size > 200_000})
        # the directory changes inside a lifetime: after the tokenizer was built and
        # before its first use, and between two instances of one process
        mids = [{"f": "rm_dir"}, {"f": "empty_dir"}, {"f": "truncate", "at": ["frac", 0.5]},
                {"f": "truncate", "at": ["abs", 0]}, {"f": "as_dir"}, {"f": "garbage", "len": 4096, "seed": 3},
                {"f": "header", "field": "version", "value": "00040405"}, {"f": "zero_tail", "at": ["abs", 20]}]
        for mi, m in enumerate(mids):
            for nm, steps in (("first", [{"k": "life", "mid": m}, {"k": "life"}, {"k": "life"}]),
                              ("cached", [{"k": "life"}, {"k": "life", "mid": m}, {"k": "life"}, {"k": "life"}]),
                              ("inst", [{"k": "life"}, {"k": "life", "instances": 3, "mid_inst": m}, {"k": "life"}])):
                jobs.append({"seed": seeds.h64(root, "grid-mid", mi, nm), "kind": "grid",
                             "cell": f"mid-{nm}-{mi}-{m['f']}", "ext": ext, "chunk": 65536, "texts": texts,
                             "classes": {}, "steps": steps})
        # caller-chosen lists whose cache keys must differ although a careless
        # encoding of (expressions, flags) makes them equal: the foreign list uses
        # the directory first, then the list under test
        for fam, (a_names, b_names) in SYNTH_FAMILIES.items():
            for base_n, base in (("real", list(ext)), ("bare", [])):
                if base_n == "real" and not isinstance(ext, list):
                    continue
                main, alt = base + a_names, base + b_names
                jobs.append({"seed": seeds.h64(root, "grid-keyinj", fam, base_n), "kind": "grid",
                             "cell": f"keyinj-{fam}-{base_n}", "ext": main, "chunk": 65536,
                             "texts": list(texts[:4]) + SYNTH_TEXTS, "classes": {},
                             "steps": [{"k": "life", "ext_alt": alt}, {"k": "life"}, {"k": "life", "instances": 2},
                                       {"k": "life", "ext_alt": alt}, {"k": "life"}]})
        # an operating-system error (EIO, EACCES, EMFILE, EROFS, EINTR) at each of the
        # first storage operations of a first lifetime and of a lifetime that finds a
        # cache: that lifetime may fail with the injected error, the following must not
        for pre_n, pre in ((0, []), (1, [{"k": "life"}]),
                           (2, [{"k": "life"}, {"k": "fault", "f": "truncate", "at": ["frac", 0.5]}])):
            for opk in range(1, 9):
                en = ("EIO", "EACCES", "EMFILE", "EROFS", "EINTR")[(opk + pre_n) % 5]
                jobs.append({"seed": seeds.h64(root, "grid-oserr", pre_n, opk), "kind": "grid",
                             "cell": f"oserr-{pre_n}-op{opk}-{en}", "ext": ext, "chunk": 4096,
                             "texts": texts, "classes": {},
                             "steps": pre + [{"k": "life", "oserr": {"op": opk, "errno": en}},
                                             {"k": "life"}, {"k": "life", "instances": 2}]})
        for n in (0, 1, 32, 4096, 100000):
            jobs.append({"seed": seeds.h64(root, "grid-enospc", n), "kind": "grid",
                         "cell": f"enospc-{n}", "ext": ext, "chunk": 4096, "texts": texts, "classes": {},
                         "steps": [{"k": "life", "enospc": n}, {"k": "life"}, {"k": "life"}]})
        return jobs


# --------------------------------------------------------------------------
# orchestrator
# --------------------------------------------------------------------------

TIERS = {
    "quick": {"swarm": 600, "full": 0, "swarm_s": 45, "full_s": 0},
    "thorough": {"swarm": 6000, "full": 16, "swarm_s": 900, "full_s": 700},
}


def _cpu():
    return max(2, min(16, os.cpu_count() or 2))


def signature_of(v):
    sig = {"class": v["class"]}
    for k in ("exc", "fault_kind", "fault_field", "where", "neighbour_nonascii", "shadowed_by_leftmost",
              "signal", "exit"):
        if v.get(k) is not None:
            sig[k] = v[k]
    return sig


class Checker:
    def __init__(self, tier, verif_seed, log=print):
        self.tier = tier
        self.verif_seed = int(verif_seed)
        self.cfg = dict(TIERS[tier])
        if os.environ.get("VERIF_C14_SWARM"):
            self.cfg["swarm"] = int(os.environ["VERIF_C14_SWARM"])
        if os.environ.get("VERIF_C14_FULL"):
            self.cfg["full"] = int(os.environ["VERIF_C14_FULL"])
        self.log = log
        self.root = seeds.root_seed(self.verif_seed, PROP, tier)
        self.tot = new_stats()
        self.tot["states"] = set()
        self.runs = 0
        self.grid_cells = 0
        self.grid_done = 0
        self.harness = []
        self.suspects = []
        self.suspect_sigs = {}
        self.violations = []
        self.known_printed = []
        self.samples = []
        self.classes = Counter()
        self.grid_outcomes = {}
        self.kinds = Counter()
        self.texts_seen = set()

    def absorb(self, i, job, res):
        if "_harness" in res or res.get("harness"):
            self.harness.append({"run": i, "seed": job.get("seed"), "kind": job.get("kind"),
                                 "what": res.get("_harness") or res.get("harness"),
                                 "detail": res if "_harness" in res else None})
            return
        self.runs += 1
        self.kinds[job["kind"]] += 1
        st = res["stats"]
        for k, v in st.items():
            if k == "states":
                self.tot["states"].update(v)
            elif isinstance(v, dict):
                for kk, vv in v.items():
                    self.tot[k][kk] += vv
            else:
                self.tot[k] += v
        for k, v in (job.get("classes") or {}).items():
            self.classes[k] += v
        for t in job["texts"]:
            self.texts_seen.add(seeds.h64(t))
        if job["kind"] == "feature":
            self.features_done = getattr(self, "features_done", 0) + 1
        if job["kind"] == "probe":
            self.probes_done = getattr(self, "probes_done", 0) + 1
        if job["kind"] == "grid":
            self.grid_done += 1
            lives = [x[2] for x in res["log"] if x[0] == "life"]
            f = [x[2] for x in res["log"] if x[0] == "fault"]
            key = str(job["cell"]) if not f else json.dumps(
                {k: v for k, v in f[0].items() if k in ("f", "at", "off", "field", "region", "effective")},
                sort_keys=True)
            self.grid_outcomes[str(job["cell"])] = {"fault": key, "lifetimes": lives}
        for v in res["viol"]:
            sk = json.dumps(signature_of(v), sort_keys=True)
            if sk not in self.suspect_sigs:
                self.suspect_sigs[sk] = 0
                self.suspects.append({"job": job, "v": v})
            self.suspect_sigs[sk] += 1
        if len(self.samples) < 3 and job["kind"] == "swarm" and len(job["steps"]) > 4:
            self.samples.append({
                "run_seed": job["seed"], "extractors": len(job["ext"]) if isinstance(job["ext"], list) else "all",
                "write_chunk": job["chunk"], "texts": job["texts"][:3],
                "steps": job["steps"][:14], "log": res["log"][:14]})

    def phase(self, jobs, seconds, timeout, may_stop=True):
        deadline = time.monotonic() + seconds if seconds else None

        def stop():
            return may_stop and len(self.suspect_sigs) >= 8

        return forkpool.run_jobs(jobs, exec_run, workers=_cpu(), timeout=timeout,
                                 on_result=self.absorb, deadline=deadline, stop=stop)

    # -- judging ----------------------------------------------------------------
    def violates(self, job, cls_sig):
        res = forkpool.fork_call(exec_run, job, timeout=LIFE_TIMEOUT * 4)
        if "_harness" in res or res.get("harness"):
            return None
        for v in res["viol"]:
            if signature_of(v) == cls_sig:
                return v
        return None

    def minimise(self, job, sig):
        from sim.minimize import Budget, ddmin, shrink_text

        budget = Budget(120 if job["kind"] != "full" else 12)
        cur = dict(job)
        differential = sig["class"] in ("missing_candidate", "bogus_candidate", "citation_mismatch", "hs_raises")
        if differential:
            cur["steps"] = []
        else:
            def ok_steps(steps):
                return self.violates(dict(cur, steps=steps), sig) is not None
            cur["steps"] = ddmin(cur["steps"], ok_steps, budget)
        v = self.violates(cur, sig)
        if v is None:
            return job, None
        # texts
        if v.get("text") is not None:
            cur["texts"] = [v["text"]]
        else:
            cur["texts"] = ddmin(cur["texts"], lambda ts: bool(ts) and self.violates(dict(cur, texts=ts), sig) is not None, budget) or cur["texts"][:1]
        if differential and isinstance(cur["ext"], list):
            def ok_ext(ext):
                return bool(ext) and self.violates(dict(cur, ext=ext), sig) is not None
            if len(cur["ext"]) <= 450:
                cur["ext"] = ddmin(cur["ext"], ok_ext, budget)
        if differential and len(cur["texts"]) == 1:
            def ok_text(t):
                return textgen.in_c14_domain(t) and self.violates(dict(cur, texts=[t]), sig) is not None
            cur["texts"] = [shrink_text(cur["texts"][0], ok_text, budget)]
        v = self.violates(cur, sig)
        return cur, v

    def judge(self):
        known = report_mod.load_known(PROP)
        seen = set()
        t0 = time.monotonic()
        for s in self.suspects:
            sig = signature_of(s["v"])
            sk = json.dumps(sig, sort_keys=True)
            if sk in seen:
                continue
            seen.add(sk)
            if (len(self.violations) >= int(os.environ.get("VERIF_MAX_VIOLATIONS", "4"))
                    or time.monotonic() - t0 > 900):
                break
            k = report_mod.matches_known(known, sig)
            if k is not None:
                line = f"KNOWN-FINDING: property={PROP} {k.get('description', sk)}"
                if line not in self.known_printed:
                    self.known_printed.append(line)
                    print(line, flush=True)
                continue
            try:
                mjob, v = self.minimise(s["job"], sig)
            except Exception:
                self.harness.append({"minimise": traceback.format_exc()})
                mjob, v = s["job"], s["v"]
            if v is None:
                # did not reproduce: a harness determinism problem, never a verdict
                self.harness.append({"not_reproduced": sig, "seed": s["job"].get("seed")})
                continue
            tag = f"{self.verif_seed}-{len(self.violations)}"
            payload = {"class": v["class"], "signature": sig, "violation": v, "job": mjob,
                       "original_run_seed": s["job"].get("seed"), "original_kind": s["job"].get("kind")}
            path = report_mod.write_replay(PROP, tag, payload)
            self.violations.append(payload)
            print(f"VIOLATION property={PROP} replay={path}", flush=True)
            self.log(f"  {json.dumps(sig, ensure_ascii=True)} text={json.dumps(v.get('text'), ensure_ascii=True)[:200]}")

    def evidence(self, wall, atlas):
        t = self.tot
        cov = {
            "evaluations": t["lifetimes"] + t["diff_texts"],
            "distinct_nontrivial": len(t["states"]) + len(self.texts_seen),
            "rule": ("evaluations = process lifetimes started against a cache directory (each answers all probe "
                     "texts of its run and is compared with the cache-less Hyperscan tokenizer) + probe texts "
                     "compared candidate-by-candidate between Hyperscan and the reference tokenizer. "
                     "distinct_nontrivial = distinct directory states some lifetime started from (content hash; "
                     "absent/empty count once each) + distinct probe texts; the fault-class grid is enumerated "
                     "completely (see grid)."),
            "samples": self.samples or [{"note": "no swarm run sampled"}],
            "exhaustive": False,
            "grid": {"cells": self.grid_cells, "completed": self.grid_done,
                     "exhaustive": self.grid_cells > 0 and self.grid_cells == self.grid_done,
                     "what": "a database of another extractor list / the same list permuted / the same expressions with other flags left in the directory followed by a crash before and after each of the first 10 storage operations of the next lifetime; truncation at every length class, zero-filled tails, every single byte of the 32-byte header flipped, foreign values per header field, body flips/bytes, garbage, zeros, appended bytes, lost file, removed/empty directory, a crash before and after each of the first 8 storage operations, a crash after each write-length class, ENOSPC budgets -- each against a cache freshly written by the real code; the entry replaced by a directory / a link to nowhere / a link to itself / a link to a directory / a link to the moved database; an operating-system error (EIO, EACCES, EMFILE, EROFS, EINTR) at each of the first 8 storage operations of a first, a cached and a damaged-cache lifetime; a read-only directory (EROFS / EACCES / EPERM on every change) holding an intact, truncated, empty, foreign-version, zero-tailed or lost database; eight kinds of damage applied in the middle of a lifetime (after construction and before first use, between two instances); caller-chosen extractor lists whose cache keys collide under non-injective encodings (boundary shift, alternation vs two patterns, swapped flags, duplicate multiplicity, newline) with the foreign list using the directory first; documents of 70 kB, 140 kB, 400 kB and 1.3 MB with every second character multi-byte at byte shifts 0-2",
                     "outcomes_sample": dict(list(sorted(self.grid_outcomes.items()))[:12])},
            "pattern_feature_enumeration": {
                "jobs": getattr(self, "feature_cells", 0), "completed": getattr(self, "features_done", 0),
                "what": "every extractor with a non-ASCII character, a {,n} repetition or a flag in its pattern, on its own atlas fragments and systematic variants (sign doubled/removed/unspaced, apostrophe variants, letter case, multi-byte neighbours)"},
            "simulated_runs": self.runs,
            "runs_by_kind": dict(self.kinds),
            "runs_per_hour": int(self.runs / max(wall, 1e-6) * 3600),
            "lifetimes": t["lifetimes"],
            "lifetimes_per_hour": int(t["lifetimes"] / max(wall, 1e-6) * 3600),
            "lifetimes_ok": t["life_ok"],
            "faults_injected": {
                "configured": dict(sorted(t["faults"].items())),
                "changed_the_directory_a_later_lifetime_started_from": dict(sorted(t["faults_effective"].items())),
                "crash_plans_fired": dict(sorted(t["crash_fired"].items())),
                "lifetimes_killed_by_crash_plan": t["life_crashed"],
                "enospc_lifetimes_failed_as_allowed": t["life_enospc"],
                "os_errors_injected_by_errno_and_operation": dict(sorted(t["oserr_fired"].items())),
                "concurrent_starts": t["pairs"],
                "concurrent_release_steps": t["pair_steps"],
                "concurrent_inconclusive": t["pair_inconclusive"],
                "reader_observed_partial_write": t["partial_read_observed"],
                "virtual_sleep_calls": t["virtual_sleeps"],
                "virtual_seconds_slept": round(t["virtual_sleep_s"], 1),
            },
            "load_outcomes": dict(sorted(t["load_outcomes"].items())),
            "lifetimes_that_recompiled_and_wrote": t["recompiled"],
            "lifetimes_that_only_loaded": t["loaded"],
            "distinct_directory_states": len(t["states"]),
            "differential": {
                "texts": t["diff_texts"], "distinct_texts": len(self.texts_seen),
                "reference_candidates_compared": t["cands_compared"],
                "hyperscan_extras_checked": t["extras_checked"],
                "hyperscan_extras_genuine": t["extras_genuine"],
                "texts_where_citations_were_compared": t["cits_compared"],
                "excused_out_of_domain": t["out_of_domain"],
                "multibyte_adjacency_classes": dict(sorted(self.classes.items())),
            },
            "simulated_time": "the library has no timer or deadline on this tree; time.sleep/time.time/time.monotonic inside a lifetime are virtual (sleeping is free, a lifetime that sleeps > 900 simulated seconds is reported as hung); logical steps (storage operations, write chunks, lifetimes) are reported",
            "components": {"real": ["eyecite", "re", "libhyperscan (compile, dumpb, loadb, scan)",
                                    "kernel filesystem under /dev/shm", "process fork/exit"],
                           "simulated": ["instant of process death", "bytes of a write that reached the file",
                                         "effects of power loss on un-synced data", "disk full",
                                         "interleaving of two starting processes", "calendar date",
                                         "wall-clock skew/jumps between lifetimes and file timestamps",
                                         "time.sleep (virtual)"],
                           "stubbed": []},
            "harness_problems": len(self.harness),
            "known_findings_printed": self.known_printed,
            "atlas": atlas_mod.summary(atlas),
        }
        return cov


ASSUMPTIONS = [
    "the pure-Python Tokenizer with the same extractor objects is the reference model",
    "libhyperscan compiles and serialises deterministically for one extractor list on one machine",
    "process death is simulated at intercepted storage operations and write-chunk boundaries; power-loss effects are file transformations between lifetimes",
    "the domain excludes non-ASCII whitespace/digits, the non-ASCII case variants of ASCII letters and -- for the 34 patterns with \\w or an unescaped dot -- non-ASCII characters inside or next to their matches",
    "a full disk is not one of the directory states the statement lists: the one lifetime into which ENOSPC was injected may fail with that error",
    "likewise an operating-system error injected at one storage operation (EIO, EACCES, EMFILE, EROFS, EINTR): that lifetime may fail with the injected error object, every later lifetime is judged in full",
    "a read-only directory, an entry that is a directory or a broken/looping link, and a directory that changes while the process lives are states of the cache directory (judged in full); a cache_dir that is itself a regular file or whose parent is missing is a configuration error and is not generated",
    "sampling outside the grid: a clean batch is evidence for the seeds explored",
]


def run(tier, verif_seed, log=print):
    t0 = time.monotonic()
    import hyperscan  # noqa: F401  (import cost paid once, in the parent)

    ck = Checker(tier, verif_seed, log)
    log(f"[C14] tier={tier} VERIF_SEED={verif_seed} root={ck.root} repo={bootstrap.repo_head()}")
    bootstrap.warm_pattern_caches(log)
    atlas = atlas_mod.build(workers=_cpu())
    gen = RunGen(atlas, tier)
    grid = gen.grid(ck.root)
    if os.environ.get("VERIF_C14_CELLS"):
        # development aid: only the grid cells whose name matches (never set by
        # the registered commands)
        grid = [j for j in grid if re.search(os.environ["VERIF_C14_CELLS"], str(j["cell"]))]
    ck.grid_cells = len(grid)
    # directed probes: every listed known finding is exercised on every run, so
    # that it is re-detected (KNOWN-FINDING line) for as long as it exists
    probes = []
    for k in report_mod.load_known(PROP):
        pj = k.get("probe_job")
        if not pj:
            continue
        pj = dict(pj)
        rep = k.get("probe_reporter")
        if rep:
            idx = sorted({i for a in atlas if a.get("rep") == rep and a["form"] == "full" for i in a["x"]})
            if idx:
                pj["ext"] = idx
        probes.append(pj)
    features = gen.feature_jobs(ck.root)
    ck.feature_cells = len(features)
    ck.phase(grid + probes + features, None, LIFE_TIMEOUT * 5, may_stop=False)
    log(f"[C14] grid: {ck.grid_done}/{ck.grid_cells} cells, lifetimes={ck.tot['lifetimes']}, "
        f"suspects={len(ck.suspects)} ({time.monotonic() - t0:.1f}s)")
    jobs = (gen.run(seeds.run_seed(ck.root, i)) for i in range(ck.cfg["swarm"]))
    ck.phase(jobs, ck.cfg["swarm_s"], LIFE_TIMEOUT * 14)
    log(f"[C14] swarm: runs={ck.runs}, lifetimes={ck.tot['lifetimes']}, diff texts={ck.tot['diff_texts']}, "
        f"suspects={len(ck.suspects)} ({time.monotonic() - t0:.1f}s)")
    if ck.cfg["full"]:
        jobs = (gen.run(seeds.run_seed(ck.root, 10_000_000 + i), full=True) for i in range(ck.cfg["full"]))
        ck.phase(jobs, ck.cfg["full_s"], 1500)
        log(f"[C14] full-list runs done: runs={ck.runs}, lifetimes={ck.tot['lifetimes']} "
            f"({time.monotonic() - t0:.1f}s)")
    ck.judge()
    wall = time.monotonic() - t0
    cov = ck.evidence(wall, atlas)
    report_mod.write_evidence(PROP, tier, verif_seed, "fault_enumeration", cov, ASSUMPTIONS,
                              wall, len(ck.violations))
    if ck.harness:
        log(f"[C14] harness problems: {len(ck.harness)}; first: {json.dumps(ck.harness[0], default=repr)[:2000]}")
    log(f"[C14] done in {wall:.1f}s: violations={len(ck.violations)} known={len(ck.known_printed)}")
    if ck.violations:
        return report_mod.EXIT_VIOLATION
    if ck.harness and (ck.runs == 0 or len(ck.harness) > max(2, ck.runs // 50)
                       or ck.grid_done != ck.grid_cells):
        return report_mod.EXIT_HARNESS
    return report_mod.EXIT_OK


def replay(path, log=print):
    import hyperscan  # noqa: F401

    data = json.load(open(path, encoding="utf8"))
    job = data["job"]
    sig = data["signature"]
    res = forkpool.fork_call(exec_run, job, timeout=LIFE_TIMEOUT * 6)
    if "_harness" in res or res.get("harness"):
        log(f"[C14] replay: harness problem {res.get('_harness') or res.get('harness')}")
        return report_mod.EXIT_HARNESS
    log(f"[C14] replay log: {json.dumps(res['log'], default=repr)[:1500]}")
    for v in res["viol"]:
        if signature_of(v) == sig:
            log(json.dumps(v, ensure_ascii=True, default=repr)[:3000])
            print(f"VIOLATION property={PROP} replay={path}", flush=True)
            return report_mod.EXIT_VIOLATION
    log(f"[C14] replay: not reproduced on this tree (other violations: {[signature_of(v) for v in res['viol']]})")
    return report_mod.EXIT_OK


def selftest_records(run_seeds, workers):
    """Full event records of a few runs (determinism self-test)."""
    import hyperscan  # noqa: F401

    atlas = atlas_mod.build(workers=16)
    gen = RunGen(atlas, "thorough")
    jobs = [gen.run(s) for s in run_seeds]
    out = [None] * len(jobs)

    def got(i, job, res):
        if "_harness" in res:
            out[i] = {"harness": res["_harness"]}
        else:
            out[i] = {"job": seeds.digest(job), "viol": res["viol"], "log": res["log"],
                      "stats": {k: (sorted(v.items()) if isinstance(v, dict) else v)
                                for k, v in res["stats"].items()}}

    forkpool.run_jobs(jobs, exec_run, workers=workers, timeout=LIFE_TIMEOUT * 14, on_result=got)
    return out
