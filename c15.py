"""C15 -- extraction is a pure function of its input.

Deterministic simulation over hash seeds, set-iteration orders, thread
interleavings, call histories and cancellations (DESIGN section 5).  The
reference model is a partial map F : (text, options) -> outcome; every
observation made anywhere must agree with it.
"""
import copy
import gc
import json
import math
import os
import subprocess
import sys
import time

from sim import atlas as atlas_mod
from sim import bootstrap, forkpool, ops, seeds, ser, setshim, textgen
from sim import knobs as knobs_mod
from sim.baton import Baton, SimCancelled, SimOverrun
from sim.simlock import SimDeadlock

PROP = "C15"
PKG = os.path.join(os.path.realpath(bootstrap.REPO), "eyecite") + os.sep
MASK_FIELDS = ("resolved_case_name_short", "resolved_case_name")
JUDGED = ("H1", "H2")

# --------------------------------------------------------------------------
# child side: execute one scenario under the baton
# --------------------------------------------------------------------------


def exec_scenario(scn):
    """Runs in a forked child of the pristine parent.  Returns plain data."""
    from eyecite import annotate_citations, clean_text, resolve_citations
    from eyecite.find import extract_reference_citations
    from eyecite.helpers import filter_citations
    from eyecite.models import Document, FullCaseCitation

    st = seeds.Streams(scn["seed"])
    if scn.get("knob"):
        # capacities of module-level caches shrunk by the simulator (sim/knobs.py)
        knobs_mod.apply(knobs_mod.discover(), int(scn["knob"]))
    shim_mods = setshim.install(scn.get("setorder", "off"), st.get("setorder"))
    threads = scn["threads"]
    n = len(threads)
    table = scn.get("table")
    replay = table is not None
    tbl = None
    if replay:
        tbl = {}
        for (t, j, k, kind, arg) in table:
            tbl[(t, j, k)] = ("cancel",) if kind == "cancel" else ("switch", arg)
    if scn.get("opcodes"):
        _instrument_for_opcodes()
    baton = Baton(
        n, PKG,
        rng=None if replay else st.get("sched"),
        p_switch=scn.get("p", 0.0), table=tbl,
        cancel_plan={int(k): v for k, v in (scn.get("cancel_plan") or {}).items()},
        max_events=scn.get("max_events", 400_000),
        burst=scn.get("burst", True),
        record_sites=scn.get("record_sites") or None,
        opcodes=bool(scn.get("opcodes")),
        cancel_exc=MemoryError if scn.get("cancel_exc") == "MemoryError" else None,
    )
    if replay:
        baton.exit_table = {int(t): to for t, to in (scn.get("exits") or [])}
    # allocator noise: a seeded number of list objects is held during each judged
    # call, so that the addresses (ids) a call's own objects get -- and whether they
    # re-use those freed by an earlier or aborted call -- vary from run to run
    tab0 = (table[0][2] if table else 0)
    heap = seeds.Streams(seeds.h64(scn["seed"], "heap", tab0, len(table or ()))).get("heap")
    obs = []          # (t, j, key digest, outcome digest)
    viol = []         # invariant violations: (class, t, j, detail)
    results = []      # retained results of earlier calls
    stats = {"cancelled": 0, "rechecks": 0, "overrun": False, "raised": 0}
    want_full = scn.get("want_full", False)
    full = {}

    def retain(t, j, op, res):
        if res is None:
            return
        results.append({
            "t": t, "j": j, "op": op, "res": res,
            "d": seeds.digest(ser.citations(res)),
            "dm": seeds.digest(ser.citations(res, MASK_FIELDS)),
            "masked": False,
        })

    def recheck(t, j, only_thread=None):
        for r in results:
            if only_thread is not None and r["t"] != only_thread:
                continue
            if r.get("scribbled"):
                continue
            stats["rechecks"] += 1
            if r["masked"]:
                now = seeds.digest(ser.citations(r["res"], MASK_FIELDS))
                was = r["dm"]
            else:
                now = seeds.digest(ser.citations(r["res"]))
                was = r["d"]
            if now != was:
                viol.append(("result_modified", t, j,
                             {"of": [r["t"], r["j"]], "text": r["op"].get("text", "")[:200]}))
                r["d"] = r["dm"] = now  # report once

    def run_op(t, j, op):
        kind = op["op"]
        if kind == "H1c":
            # the plain-text call a user makes after cleaning the markup himself
            try:
                cleaned = clean_text(op["markup"], ops.clean_list(op["clean"]))
            except (SimCancelled, SimOverrun, SimDeadlock):
                raise
            except Exception:
                return
            op = {"op": "H1", "text": cleaned}
            kind = "H1"
            threads[t][j] = dict(op, _derived=True)
        if kind in JUDGED:
            key = ops.op_key(op)
            kd = seeds.digest(key)
            clean_in = ops.clean_list(op.get("clean"))
            clean_ref = list(clean_in) if clean_in is not None else None
            ext_list = ext_ref = None
            res = None
            junk = [[] for _ in range(heap.randrange(0, 96))]
            try:
                if kind == "H1":
                    res = ops.h1_call(op, clean_in)
                else:
                    from eyecite import get_citations

                    tok, ext_list = ops.h2_tokenizer(op)
                    ext_ref = list(ext_list)
                    res = get_citations(ops.fresh_str(op.get("text", "")), tokenizer=tok)
                baton.end_op(t)
                outcome = ser.citations(res)
            except (SimCancelled, SimOverrun, SimDeadlock):
                raise
            except MemoryError:
                if scn.get("cancel_exc") == "MemoryError":
                    # the injected allocation failure came out of the call: the call
                    # failed, as it may; nothing to judge (like a cancellation)
                    raise SimCancelled()
                raise
            except Exception as e:
                baton.end_op(t)
                outcome = ("raised", type(e).__name__)
                stats["raised"] += 1
            del junk
            if clean_in != clean_ref:
                viol.append(("input_modified", t, j, {"what": "clean_steps"}))
            if ext_list is not None and (
                    len(ext_list) != len(ext_ref)
                    or any(a is not b for a, b in zip(ext_list, ext_ref))):
                viol.append(("input_modified", t, j, {"what": "extractors"}))
            od = seeds.digest(outcome)
            obs.append((t, j, kd, od))
            if want_full:
                full[f"{t}.{j}"] = outcome
            if (res is not None and op.get("keep", True)
                    and not (kind == "H1" and op.get("text") == "eyecite")):
                retain(t, j, op, res)
        elif kind == "H3":
            mine = [r for r in results if r["t"] == t and not r.get("scribbled")]
            if not mine:
                return
            r = mine[op.get("r", 0) % len(mine)]
            cits = copy.deepcopy(r["res"])
            text = r["op"].get("text", "")
            try:
                if op["what"] == "resolve":
                    resolve_citations(cits)
                elif op["what"] == "annotate":
                    annotate_citations(
                        text, [(c.span(), "<a>", "</a>") for c in cits])
                else:
                    clean_text(text, ["all_whitespace", "underscores"])
            except (SimCancelled, SimOverrun, SimDeadlock):
                raise
            except Exception:
                pass
        elif kind == "H4":
            mine = [r for r in results if r["t"] == t and r["op"]["op"] == "H1"
                    and not r.get("scribbled")
                    and r["op"].get("markup") is None and not r["op"].get("clean")]
            if not mine:
                return
            r = mine[op.get("r", 0) % len(mine)]
            fulls = [c for c in r["res"] if isinstance(c, FullCaseCitation)]
            if not fulls:
                return
            found = fulls[op.get("c", 0) % len(fulls)]
            # the documented flow: the caller fills in the resolved name(s) ...
            name = op.get("name", "Foo")
            if name == "@parties" and found.metadata.plaintiff and found.metadata.defendant:
                found.metadata.resolved_case_name = (
                    f"{found.metadata.plaintiff} v. {found.metadata.defendant}")
                found.metadata.resolved_case_name_short = found.metadata.defendant
            else:
                found.metadata.resolved_case_name_short = name if name != "@parties" else "Foo"
            # ... which is the harness's own change: take a new snapshot, so that
            # anything that changes from here on is the library's doing
            r["d"] = seeds.digest(ser.citations(r["res"]))
            r["dm"] = r["d"]
            try:
                doc = Document(plain_text=r["op"].get("text", ""), markup_text="")
                refs = extract_reference_citations(found, doc)
                arg = list(r["res"]) + refs
                arg_ref = list(arg)
                filter_citations(arg)
                if len(arg) != len(arg_ref) or any(a is not b for a, b in zip(arg, arg_ref)):
                    viol.append(("input_modified", t, j, {"what": "list passed to filter_citations"}))
                # the returned list is a result of an earlier call too
                retain(t, j, {"op": "H4refs", "text": r["op"].get("text", "")}, refs)
            except (SimCancelled, SimOverrun, SimDeadlock):
                raise
            except Exception:
                pass
        elif kind == "H7":
            # a caller scribbles on a result it owns; whatever it does there must
            # not reach the library's own state or any other result
            mine = [r for r in results if r["t"] == t and not r.get("scribbled")]
            if not mine:
                return
            r = mine[op.get("r", 0) % len(mine)]
            r["scribbled"] = True
            try:
                for c in list(r["res"]):
                    c.metadata.pin_cite = "SCRIBBLE"
                    c.metadata.parenthetical = "SCRIBBLE"
                    if isinstance(c.groups, dict):
                        if "page" in c.groups:
                            c.groups["page"] = "999999"
                        c.groups["scribble"] = "x"
                    if hasattr(c, "year"):
                        c.year = 1066
                    if hasattr(c, "edition_guess"):
                        c.edition_guess = None
                if isinstance(r["res"], list):
                    del r["res"][: len(r["res"]) // 2]
            except Exception:
                pass
        elif kind == "RC":
            recheck(t, j, only_thread=t)
        elif kind == "GC":
            gc.collect()

    op_events = []

    def body(t):
        for j, op in enumerate(threads[t]):
            baton.begin_op(t, j, cancellable=op["op"] in JUDGED)
            try:
                run_op(t, j, op)
                op_events.append((t, j, baton.op_events[t]))
            except SimCancelled:
                stats["cancelled"] += 1
                baton.end_op(t)
                baton.retrace()
            except SimOverrun:
                stats["overrun"] = True
                return
            except SimDeadlock:
                stats["deadlocks"] = stats.get("deadlocks", 0) + 1
                if stats["cancelled"]:
                    # an asynchronous exception can leak a lock in ways no code can
                    # defend against (it may arrive between the end of a with-block
                    # and its __exit__ call): after a cancellation a deadlock is
                    # inconclusive, never a verdict
                    stats["overrun"] = True
                    return
                # a schedule CPython could produce in which this call never returns
                viol.append(("deadlock", t, j, {"op": op.get("op"), "text": (op.get("text") or op.get("markup") or "")[:200]}))
                return
            finally:
                baton.end_op(t)
        baton.begin_op(t, len(threads[t]), cancellable=False)
        try:
            recheck(t, len(threads[t]), only_thread=t)
        except SimOverrun:
            stats["overrun"] = True

    baton.run([body] * n, first=scn.get("first"))
    # final re-check of every retained result, after all threads are done
    try:
        recheck(-1, -1)
    except SimOverrun:  # pragma: no cover - tracing is off here
        pass
    derived = [[t, j, {k: v for k, v in op.items() if k != "_derived"}]
               for t, th in enumerate(threads) for j, op in enumerate(th) if op.get("_derived")]
    out = {
        "obs": obs, "viol": viol, "derived": derived, "op_events": op_events,
        "sites": {f"{t}.{j}": sorted([v[0], v[1], v[2], v[3], k[1]] for k, v in tab.items())
                  for (t, j), tab in baton.sites.items()},
        "events": baton.events, "switches": baton.switches,
        "digest": baton.digest(), "first": baton.first,
        "recorded": baton.recorded, "exits": baton.exit_recorded,
        "window_hits": sorted(baton.window_hits.items()),
        "cancel_sites": baton.cancel_sites,
        "shim": (shim_mods, setshim.STATE.iterations, setshim.STATE.reordered),
        "stats": stats, "lock_waits": baton.lock_waits,
    }
    if want_full:
        out["full"] = full
    return out


WARMUP_DOC = ("See Foo v. Bar, 1 U.S. 1, 5 (2d Cir. 1990) (en banc); Bar at 7. Id. at 8. Foo, supra, at 9; "
              "Bar, 2 F.2d at 12. 42 U.S.C. § 1983 (West 1999). 1 Minn. L. Rev. 1, 4 (1917).\n§ 5")


def _instrument_for_opcodes():
    """CPython 3.12 starts delivering 'opcode' events for a code object only
    after f_trace_opcodes has been set on one of its frames once; run one
    throw-away traced call so that the scenario's first thread is not blind.
    (Only in bytecode-granularity sweeps; it warms the lazy caches of the
    warm-up document's extractors, the line-granularity sweeps stay cold.)"""
    import sys

    from eyecite import get_citations

    def tr(frame, event, arg):
        if frame.f_code.co_filename.startswith(PKG):
            frame.f_trace_opcodes = True
            return tr
        return None

    sys.settrace(tr)
    try:
        get_citations(WARMUP_DOC)
        get_citations(markup_text="<p>" + WARMUP_DOC.replace("Bar at 7", "<em>Bar</em> at 7") + "</p>",
                      clean_steps=["html", "all_whitespace"])
    except Exception:
        pass
    finally:
        sys.settrace(None)


def eval_isolated(op):
    """Baseline: the judged operation alone, fresh child, no shim, one thread."""
    outcome, _ = ops.eval_judged(op)
    return {"od": seeds.digest(outcome), "outcome": outcome}


def _frames_below():
    f, n = sys._getframe(), 0
    while f is not None:
        n += 1
        f = f.f_back
    return n


def _with_free_frames(fn, free):
    """Calls fn() with exactly `free` Python frames left below the recursion limit
    (a caller deep inside a recursive-descent parser, a framework's middleware
    stack, or a process with a small recursion limit)."""
    def down(k):
        if k <= 0:
            return fn()
        return down(k - 1)

    need = sys.getrecursionlimit() - _frames_below() - int(free) - 2
    return down(max(0, need))


def _discover_knobs(_):
    return knobs_mod.discover()


def exec_depth(job):
    """Stack exhaustion as a fault: the judged operation is called with few free
    frames, ascending.  A call may fail with RecursionError (the caller's
    environment, like a full disk); a call that *returns* must return the value
    of the function.  Fresh child, no threads, no tracing."""
    out = []
    raised = returned = 0
    for free in job["frees"]:
        op = job["op"]

        def call():
            return ops.eval_judged(op)[0]

        try:
            outcome = _with_free_frames(call, free)
        except RecursionError:
            raised += 1
            continue
        if outcome == ("raised", "RecursionError"):
            raised += 1
            continue
        returned += 1
        rec = {"free": free, "od": seeds.digest(outcome)}
        if job.get("want_full"):
            rec["outcome"] = outcome
        out.append(rec)
    return {"obs": out, "raised": raised, "returned": returned}


# --------------------------------------------------------------------------
# scenario generation (orchestrator side; pure function of the run seed)
# --------------------------------------------------------------------------

def _opinion_paragraphs():
    p = os.path.join(bootstrap.REPO, "tests", "assets", "opinion.txt")
    try:
        txt = open(p, encoding="utf8").read()
    except OSError:
        return []
    paras = [x.strip() for x in txt.split("\n\n") if len(x.strip()) > 80]
    return paras


class ScenarioGen:
    def __init__(self, atlas, tier):
        self.atlas = atlas
        self.tier = tier
        self.paras = _opinion_paragraphs()

    def text_pool(self, g, tg):
        pool = []
        k = g.randrange(2, 6)
        for _ in range(k):
            x = g.random()
            if x < 0.22 and tg.ties2:
                t = tg.pick(tg.ties2)["t"]
            elif x < 0.32 and tg.ties1:
                t = tg.pick(tg.ties1)["t"]
            elif x < 0.55 and (tg.ties2 or tg.ties1):
                fr = [tg.pick(tg.ties2 or tg.ties1), tg.pick(tg.ties1 or tg.ties2)]
                t = tg.document(n_items=g.randrange(1, 4), frags=fr)
            elif x < 0.85:
                t = tg.document(n_items=g.randrange(1, 6))
            elif x < 0.90 and self.paras:
                t = tg.pick(self.paras)[:1500]
            elif x < 0.93:
                t = ""
            elif x < 0.96:
                t = "eyecite"
            else:
                t = tg.document(n_items=2, mb=textgen.MB_ALL, mb_rate=0.5)
            pool.append(t)
        return pool

    def ext_for(self, text):
        """Extractor indices a subset tokenizer needs for this text: those of the
        atlas fragments whose reporter string occurs in it."""
        idx = []
        for gfr in self._by_rep:
            if gfr["rep"] and gfr["rep"] in text:
                idx.extend(gfr["x"])
        return sorted(set(idx))[:120]

    def scenario(self, run_seed):
        st = seeds.Streams(run_seed)
        g = st.get("gen")
        tg = textgen.Gen(g, self.atlas)
        if not hasattr(self, "_by_rep"):
            self._by_rep = [a for a in self.atlas if a["x"] and a.get("rep")]
        n = g.choice([1, 1, 2, 2, 2, 3, 3, 4])
        p = g.choice([0.001, 0.01, 0.05, 0.3]) if n > 1 else 0.0
        setorder = g.choice(["off", "off", "off", "reverse", "rotate", "shuffle", "shuffle"])
        pool = self.text_pool(g, tg)
        # one markup rendering per pool text, so that the *same* markup meets
        # different clean_steps (and plain calls on its cleaned text) within a run
        mkpool = {}

        def markup_of(t):
            if t not in mkpool:
                mkpool[t] = tg.markup(t)
            return mkpool[t]

        threads = []
        for t in range(n):
            k = g.randrange(2, 9)
            opsl = []
            for _ in range(k):
                x = g.random()
                text = pool[g.randrange(len(pool))]
                if x < 0.62:
                    if g.random() < 0.08 and len(text) > 20:
                        # a near-twin of a pool text: same length, same first and last
                        # characters, one digit in the middle changed
                        text = _twin(text, g)
                    op = {"op": "H1", "text": text}
                    y = g.random()
                    if y < 0.15:
                        op["ra"] = True
                    elif y < 0.27 and text not in ("", "eyecite"):
                        op = {"op": "H1", "text": "", "markup": markup_of(text),
                              "clean": g.choice([["html", "all_whitespace"], ["html"],
                                                 ["html", "inline_whitespace"],
                                                 ["html", "@rep:,:;", "all_whitespace"],
                                                 ["html", "@rep:.: ", "all_whitespace"]])}
                    elif y < 0.32 and text not in ("", "eyecite"):
                        op["clean"] = g.choice([["all_whitespace"], ["inline_whitespace", "underscores"],
                                                ["@tab_to_space", "all_whitespace"],
                                                ["@rep:,:;", "all_whitespace"], ["@rep:.: ", "all_whitespace"],
                                                ["@rep:v.:vs.", "inline_whitespace"], ["@rep: at : @ "]])
                    elif y < 0.35 and text not in ("", "eyecite"):
                        # a call that raises: markup without the html step
                        op = {"op": "H1", "text": "", "markup": markup_of(text),
                              "clean": ["all_whitespace"]}
                elif x < 0.72:
                    ext = self.ext_for(text)
                    y = g.random()
                    op = {"op": "H2", "text": text, "ext": ext,
                          "tok": "hs" if y < 0.35 else "ref" if y < 0.8 else "ac"}
                    if op["tok"] == "ac" and g.random() < 0.5:
                        op["ext"] = []
                elif x < 0.80:
                    op = {"op": "H3", "r": g.randrange(8),
                          "what": g.choice(["resolve", "annotate", "clean"])}
                elif x < 0.88:
                    op = {"op": "H4", "r": g.randrange(8), "c": g.randrange(4),
                          "name": g.choice(["Foo", "Smith", "Wingler", "@parties", "@parties", "@parties"])}
                    opsl.append(op)
                    # the documented flow is followed by another extraction
                    op = {"op": "H1", "text": text}
                elif x < 0.92 and text not in ("", "eyecite"):
                    cl = g.choice([["html", "all_whitespace"], ["html"], ["html", "inline_whitespace"]])
                    mk = markup_of(text)
                    opsl.append({"op": "H1", "text": "", "markup": mk, "clean": cl})
                    op = {"op": "H1c", "markup": mk, "clean": cl}
                    if g.random() < 0.5:
                        opsl.append(op)
                        op = {"op": "H4", "r": g.randrange(8), "c": g.randrange(4), "name": "Foo"}
                elif x < 0.94:
                    op = {"op": "RC"}
                elif x < 0.97:
                    opsl.append({"op": "H7", "r": g.randrange(8)})
                    op = {"op": "H1", "text": text}
                else:
                    op = {"op": "GC"}
                if op["op"] in JUDGED and g.random() < 0.35:
                    op["keep"] = False     # the caller drops this result at once
                opsl.append(op)
            threads.append(opsl)
        cancel_plan = {}
        if g.random() < 0.25:
            t = g.randrange(n)
            cancel_plan[str(t)] = int(math.exp(g.uniform(math.log(30), math.log(30000))))
        return {"seed": run_seed, "threads": threads, "p": p, "setorder": setorder,
                "cancel_plan": cancel_plan}


def _twin(text, g):
    mid = [i for i in range(len(text) // 4, 3 * len(text) // 4) if text[i].isdigit()]
    if not mid:
        return text
    i = mid[g.randrange(len(mid))]
    d = str((int(text[i]) + 1 + g.randrange(8)) % 10)
    if d == "0" and (i == 0 or not text[i - 1].isdigit()):
        d = "7"
    return text[:i] + d + text[i + 1:]


def _twin_op(op, g):
    o = dict(op)
    fld = "markup" if o.get("markup") else "text"
    o[fld] = _twin(o.get(fld) or "", g)
    return o


def effective_op(scn, res, t, j):
    """The judged operation at (t, j): H1c ops are replaced by the plain H1 call
    on the cleaned text the child derived."""
    for (dt, dj, op) in res.get("derived") or []:
        if dt == t and dj == j:
            return op
    return scn["threads"][t][j]


def to_replayable(scn, res):
    """The same scenario with every scheduling decision made explicit."""
    s = dict(scn)
    s["table"] = [list(x) for x in res["recorded"]]
    s["exits"] = [list(x) for x in res["exits"]]
    s["first"] = res["first"]
    s["cancel_plan"] = {}
    return s


# --------------------------------------------------------------------------
# hash contexts: fresh interpreters whose only nondeterminism is the seed
# --------------------------------------------------------------------------

def hashctx_server():
    """Entry point of a fresh interpreter started with PYTHONHASHSEED=h.
    Reads one JSON op per line on stdin, answers one JSON line each."""
    bootstrap.pin_clock()
    bootstrap.import_eyecite()
    out = sys.stdout
    for line in sys.stdin:
        line = line.strip()
        if not line:
            continue
        req = json.loads(line)
        if req.get("cmd") == "quit":
            break
        outcome, _ = ops.eval_judged(req["op"])
        ans = {"od": seeds.digest(outcome)}
        if req.get("full"):
            ans["outcome"] = outcome
        out.write(json.dumps(ans, default=repr) + "\n")
        out.flush()


def context_env(hashseed):
    """What else differs between fresh interpreters besides the hash seed."""
    v = int(hashseed) % 7
    return {"PYTHONHASHSEED": int(hashseed),
            "LC_ALL": ["C", "C.UTF-8", "POSIX", "C.UTF-8", "C", "en_US.UTF-8", "C.UTF-8"][v],
            "TZ": ["UTC", "America/New_York", "Asia/Tokyo", "Pacific/Kiritimati", "UTC", "Europe/Berlin", "UTC"][v],
            "cwd": ["/", "/tmp", None][int(hashseed) % 3]}


class HashCtx:
    """Client for one fresh interpreter with a given PYTHONHASHSEED."""

    def __init__(self, hashseed):
        self.hashseed = int(hashseed)
        env = dict(os.environ)
        env["PYTHONHASHSEED"] = str(self.hashseed)
        env["VERIF_HASHCTX"] = "1"
        # "in every process": besides the hash seed, a fresh interpreter differs in
        # its environment -- locale, time zone, working directory, process id
        v = self.hashseed % 7
        env["LC_ALL"] = ["C", "C.UTF-8", "POSIX", "C.UTF-8", "C", "en_US.UTF-8", "C.UTF-8"][v]
        env["LANG"] = env["LC_ALL"]
        env["TZ"] = ["UTC", "America/New_York", "Asia/Tokyo", "Pacific/Kiritimati", "UTC", "Europe/Berlin", "UTC"][v]
        cwd = ["/", "/tmp", None][self.hashseed % 3]
        self.p = subprocess.Popen(
            [sys.executable, os.path.join(bootstrap.VERIF, "vcheck.py"), "_hashctx"],
            stdin=subprocess.PIPE, stdout=subprocess.PIPE, env=env, text=True,
            encoding="utf8", bufsize=1, cwd=cwd)

    def ask(self, op, full=False):
        self.p.stdin.write(json.dumps({"op": op, "full": full}) + "\n")
        self.p.stdin.flush()
        line = self.p.stdout.readline()
        if not line:
            raise RuntimeError(f"hash context {self.hashseed} died")
        return json.loads(line)

    def close(self):
        try:
            self.p.stdin.write(json.dumps({"cmd": "quit"}) + "\n")
            self.p.stdin.flush()
            self.p.stdin.close()
        except Exception:
            pass
        try:
            self.p.wait(10)
        except Exception:
            self.p.kill()


def hashctx_batch(job):
    """Forked helper: evaluate a list of ops in one fresh interpreter with the
    given hash seed; returns the outcome digests."""
    hs, oplist = job
    ctx = HashCtx(hs)
    try:
        return [ctx.ask(op)["od"] for op in oplist]
    finally:
        ctx.close()


# --------------------------------------------------------------------------
# orchestrator
# --------------------------------------------------------------------------

TIERS = {
    # runs, sim seconds cap, hash contexts, hashctx corpus extra docs
    "quick": {"runs": 2400, "sim_s": 30, "ctx": 24, "docs": 600, "ctx_s": 60,
              "sweep_pairs": 6, "sweep_stride": 1, "sweep_all_pairs": 0, "sweep_s": 42, "base_s": 20,
              "sweep_double": 60, "sweep_opcode_pairs": 0, "sweep_lasts": False, "sweep_cancel_stride": 1,
              "depth_docs": 16, "depth_max": 140, "depth_s": 25},
    "thorough": {"runs": 60000, "sim_s": 900, "ctx": 192, "docs": 4000, "ctx_s": 500,
                 "sweep_pairs": 150, "sweep_stride": 1, "sweep_all_pairs": 12, "sweep_s": 800, "base_s": 400,
                 "sweep_double": 600, "sweep_opcode_pairs": 6,
                 "depth_docs": 200, "depth_max": 220, "depth_s": 300, "knob_pairs": 8, "knob_s": 150},
}


def _cpu():
    return max(2, min(16, os.cpu_count() or 2))


class Checker:
    def __init__(self, tier, verif_seed, log=print):
        self.tier = tier
        self.verif_seed = int(verif_seed)
        self.cfg = dict(TIERS[tier])
        if os.environ.get("VERIF_C15_RUNS"):
            self.cfg["runs"] = int(os.environ["VERIF_C15_RUNS"])
        if os.environ.get("VERIF_C15_CTX"):
            self.cfg["ctx"] = int(os.environ["VERIF_C15_CTX"])
        if os.environ.get("VERIF_C15_OPCODE_PAIRS"):
            self.cfg["sweep_opcode_pairs"] = int(os.environ["VERIF_C15_OPCODE_PAIRS"])
        self.log = log
        self.root = seeds.root_seed(self.verif_seed, PROP, tier)
        self.F = {}               # key digest -> (outcome digest, provenance)
        self.key_ops = {}         # key digest -> the judged operation
        self.sweep_bases = {}
        self.sweep_twins = {}
        self.suspects = []        # disagreements / invariant violations
        self.harness = []         # harness problems (never verdicts)
        self.baseline_cache = {}
        self.cnt = {
            "runs": 0, "events": 0, "switches": 0, "observations": 0,
            "cancellations": 0, "rechecks": 0, "overruns": 0, "raised_outcomes": 0,
            "threads_hist": {}, "setorder_hist": {}, "p_hist": {},
            "shim_iterations": 0, "shim_reordered": 0,
            "ops_hist": {}, "inconclusive": 0,
        }
        self.window_hits = {}
        self.cancel_sites = {}
        self.interleavings = set()
        self.key_contexts = {}    # key digest -> number of observations
        self.key_ctxkinds = {}    # key digest -> set of context kinds
        self.samples = []
        self.violations = []
        self.known_printed = []
        self.shim_unconfirmed = 0
        self.shim_confirmed = 0

    # -- helpers -----------------------------------------------------------
    def observe(self, kd, od, prov, ctxkind, op=None):
        self.cnt["observations"] += 1
        if op is not None and kd not in self.key_ops:
            self.key_ops[kd] = op
        self.key_contexts[kd] = self.key_contexts.get(kd, 0) + 1
        self.key_ctxkinds.setdefault(kd, set()).add(ctxkind)
        cur = self.F.get(kd)
        if cur is None:
            self.F[kd] = (od, prov)
            return True
        if cur[0] != od:
            self.suspects.append({"class": "purity", "kd": kd, "a": cur, "b": (od, prov)})
            return False
        return True

    def baseline(self, op):
        kd = seeds.digest(ops.op_key(op))
        if kd not in self.baseline_cache:
            r = forkpool.fork_call(eval_isolated, op, timeout=120)
            if "_harness" in r:
                raise RuntimeError(f"baseline evaluation failed: {r}")
            self.baseline_cache[kd] = r
        return self.baseline_cache[kd]

    # -- phase A: simulated runs --------------------------------------------
    def phase_sim(self, atlas):
        sg = ScenarioGen(atlas, self.tier)
        self.sg = sg
        nruns = self.cfg["runs"]
        deadline = time.monotonic() + self.cfg["sim_s"]
        scns = {}

        def jobs():
            for i in range(nruns):
                s = sg.scenario(seeds.run_seed(self.root, i))
                scns[i] = s
                yield s

        def got(i, scn, res):
            scns.pop(i, None)
            if "_harness" in res:
                self.harness.append({"run": i, "seed": scn["seed"], "what": res})
                return
            c = self.cnt
            c["runs"] += 1
            c["events"] += res["events"]
            c["switches"] += res["switches"]
            c["cancellations"] += res["stats"]["cancelled"]
            c["rechecks"] += res["stats"]["rechecks"]
            c["raised_outcomes"] += res["stats"]["raised"]
            c["lock_waits"] = c.get("lock_waits", 0) + res.get("lock_waits", 0)
            if res["stats"]["overrun"]:
                c["overruns"] += 1
                c["inconclusive"] += 1
            n = len(scn["threads"])
            c["threads_hist"][n] = c["threads_hist"].get(n, 0) + 1
            c["setorder_hist"][scn["setorder"]] = c["setorder_hist"].get(scn["setorder"], 0) + 1
            c["p_hist"][str(scn["p"])] = c["p_hist"].get(str(scn["p"]), 0) + 1
            c["shim_iterations"] += res["shim"][1]
            c["shim_reordered"] += res["shim"][2]
            for th in scn["threads"]:
                for op in th:
                    c["ops_hist"][op["op"]] = c["ops_hist"].get(op["op"], 0) + 1
            for name, k in res["window_hits"]:
                self.window_hits[name] = self.window_hits.get(name, 0) + k
            for name in res["cancel_sites"]:
                self.cancel_sites[name] = self.cancel_sites.get(name, 0) + 1
            if n > 1:
                self.interleavings.add(res["digest"])
            ctxkind = "threads" if n > 1 else ("shim" if scn["setorder"] != "off" else "seq")
            for (t, j, kd, od) in res["obs"]:
                eop = effective_op(scn, res, t, j)
                if not self.observe(kd, od, ("sim", i, t, j), ctxkind, op=eop):
                    self.suspects[-1]["scn"] = to_replayable(scn, res)
                    self.suspects[-1]["op"] = eop
            for (cls, t, j, detail) in res["viol"]:
                self.suspects.append({"class": cls, "scn": to_replayable(scn, res),
                                      "at": (t, j), "detail": detail, "run": i})
            if len(self.samples) < 3 and n > 1 and res["switches"] > 0:
                self.samples.append({
                    "run_seed": scn["seed"], "threads": n, "p_switch": scn["p"],
                    "setorder": scn["setorder"],
                    "ops": [[_op_brief(o) for o in th] for th in scn["threads"]],
                    "line_events": res["events"], "context_switches": res["switches"],
                    "first_decisions": [list(x) for x in res["recorded"][:8]],
                    "schedule_digest": res["digest"],
                })

        def stop():
            return len(self.suspects) >= 40

        started = forkpool.run_jobs(jobs(), exec_scenario, workers=_cpu(), timeout=90,
                                    on_result=got, deadline=deadline, stop=stop)
        return started

    # -- phase A2: single-pre-emption and single-cancellation sweeps -----------------
    def phase_sweep(self, atlas):
        """Systematic schedules around seeded pairs of documents (A, B).

        Pre-emption sweep: thread 0 extracts A, thread 1 extracts B; one run per
        pre-emption point k of A's call: thread 0 is pre-empted at exactly that
        line event, thread 1 runs its whole call, thread 0 resumes.
        Cancellation sweep: one thread; A's call is aborted by an asynchronous
        exception at point k, then A and B are extracted again and judged.

        Points: in `sites` mode the first and the last execution of every
        distinct source line of the call (a window between two adjacent
        statements is hit by construction, whatever its width and however
        rarely the path runs); in `all` mode every line event (stride 1 =
        every single-pre-emption interleaving of the two calls)."""
        knob = getattr(self, "_sweep_knob", None)
        g = seeds.Streams(seeds.h64(self.root, "sweep", knob or 0)).get("gen")
        tg = textgen.Gen(g, atlas)
        ties = [a for a in atlas if a["tie"]]
        stride = max(1, int(os.environ.get("VERIF_C15_SWEEP_STRIDE", self.cfg["sweep_stride"])))
        npairs = int(os.environ.get("VERIF_C15_SWEEP_PAIRS", self.cfg["sweep_pairs"]))
        n_all = self.cfg.get("sweep_all_pairs", 0)
        t_start = time.monotonic()
        t_end = t_start + self.cfg["sweep_s"]
        if knob:
            npairs = self.cfg.get("knob_pairs", 2)
            n_all = 0
            t_end = t_start + self.cfg.get("knob_s", 25)

        def phase_mode():
            """The sweep budget is shared: first the line-site sweeps over many
            pairs (55 %), then every line event of a few pairs (20 %), then
            bytecode granularity (25 %).  Tiers without the last two modes spend
            everything on the first."""
            frac = (time.monotonic() - t_start) / max(1e-9, self.cfg["sweep_s"])
            want_all = n_all > 0
            want_op = self.cfg.get("sweep_opcode_pairs", 0) > 0
            if want_all and 0.55 <= frac < 0.75 and sw["pairs_in_all_events_mode"] < n_all:
                return "all"
            if want_op and frac >= (0.75 if want_all else 0.7) and \
                    sw["pairs_in_opcode_mode"] < self.cfg.get("sweep_opcode_pairs", 0):
                return "op"
            return "sites"
        sw = self.sweep = {"pairs": 0, "preemption_runs": 0, "cancellation_runs": 0,
                           "double_preemption_runs": 0, "pairs_in_opcode_mode": 0,
                           "line_events_of_A_total": 0, "distinct_sites_total": 0,
                           "pairs_in_all_events_mode": 0, "stride_in_all_events_mode": stride,
                           "complete_preemption_sweeps": 0, "complete_cancellation_sweeps": 0,
                           "skipped_long": 0, "samples": []}

        knob_names = set()

        def ref_doc():
            # a full case citation and a later pin-cited reference to one of
            # its parties: the most state-hungry path of an extraction
            # (one citation only: with a parallel citation the second lookup of
            # the same names repairs what the first one lost)
            for _ in range(50):
                p1, p2 = tg.name(), tg.name()
                if p1 != p2 and not ({p1, p2} & knob_names):
                    break
            knob_names.update((p1, p2))
            rep = g.choice(["U.S.", "F.2d", "F. Supp.", "Cal. 3d", "N.E.2d"])
            t = (f"{tg.words(2).capitalize()} {p1} v. {p2}, {tg.vol()} {rep} {tg.page()} ({tg.year()}). "
                 f"{p2} at 17; {p1}, supra, at 3. Id. at 4")
            return t[:300]

        def doc():
            if knob:
                return ref_doc()
            fr = [tg.pick(ties)] if ties and g.random() < 0.5 else None
            # half of the sweep documents exercise the court lookup for sure (its
            # first use in a process is a lazy-initialisation site)
            tg.force_paren = (sw["pairs"] % 3 == 1) or g.random() < 0.2
            t = tg.document(n_items=g.randrange(1, 3), frags=None)
            tg.force_paren = False
            if fr:
                t = tg.cite(fr[0]) + "; " + t
            return t[:300]

        def mkop(text, mode):
            if mode == "markup":
                return {"op": "H1", "text": "", "markup": tg.markup(text),
                        "clean": g.choice([["html", "all_whitespace"], ["html"]])}
            if mode == "ra":
                return {"op": "H1", "text": text, "ra": True}
            return {"op": "H1", "text": text}

        def absorb(scn, r, prov):
            self.cnt["events"] += r["events"]
            self.cnt["switches"] += r["switches"]
            self.cnt["cancellations"] += r["stats"]["cancelled"]
            self.cnt["lock_waits"] = self.cnt.get("lock_waits", 0) + r.get("lock_waits", 0)
            for name in r["cancel_sites"]:
                self.cancel_sites[name] = self.cancel_sites.get(name, 0) + 1
            if len(scn["threads"]) > 1:
                self.interleavings.add(r["digest"])
            for (t, j, kd, od) in r["obs"]:
                if not self.observe(kd, od, prov + (t, j), "threads" if len(scn["threads"]) > 1 else "history",
                                    op=scn["threads"][t][j]):
                    self.suspects[-1]["scn"] = dict(scn)
                    self.suspects[-1]["op"] = scn["threads"][t][j]
            for (cls, t, j, detail) in r["viol"]:
                self.suspects.append({"class": cls, "scn": dict(scn), "at": (t, j),
                                      "detail": detail, "run": prov})

        tries = 0
        # the first two pairs (markup mode; plain mode with a court lookup) are
        # completed even on a loaded machine: coverage of these two modes must not
        # depend on how busy the host is (hard cap: 2.5 x the sweep budget)
        t_hard = t_start + 2.5 * self.cfg["sweep_s"]
        if knob:
            t_hard = t_end + 15
        while sw["pairs"] < npairs and tries < npairs * 4 and (
                time.monotonic() < t_end or (sw["pairs"] < 2 and time.monotonic() < t_hard)):
            tries += 1
            pi = tries + (1000 * knob if knob else 0)
            a, b = doc(), doc()
            if g.random() < 0.2 and not knob:
                b = a
            if not knob and sw["pairs"] % 3 == 1:
                # the second pair of every run (always completed) also walks the
                # reference path: full citation, pin-cited reference, supra, id.
                a = (ref_doc() + "; " + a)[:300]
            x = g.random()
            ma, mb_ = (("markup", "markup") if x < 0.3 else ("plain", "plain") if x < 0.65 else
                       ("ra", "plain") if x < 0.8 else ("markup", "plain") if x < 0.9 else ("plain", "markup"))
            # the first pairs of every run rotate through the modes, so that even a
            # short sweep covers markup mode, the court lookup and plain mode
            if knob:
                ma, mb_ = "plain", "plain"
            elif sw["pairs"] % 3 == 0:
                ma, mb_ = "markup", "markup"
            elif sw["pairs"] % 3 == 1:
                ma, mb_ = "plain", "plain"
            opa, opb = mkop(a, ma), mkop(b, mb_)
            # after the interleaved calls each thread extracts the *other* document
            # once more, so that state polluted inside the window shows in a later,
            # undisturbed call as well
            base = {"seed": seeds.h64(self.root, "sweep", pi),
                    "threads": [[opa, dict(opb)], [opb, dict(opa)]],
                    "p": 0.0, "setorder": "off", "cancel_plan": {}, "table": [],
                    "exits": [[1, 0], [0, 1]], "first": 0, "burst": False}
            if knob:
                base["knob"] = knob
                # the other thread extracts only the other document: extracting A
                # as well would put back what B's call evicted
                base["threads"] = [[opa, dict(opb)], [opb]]
            mode = "sites" if knob else phase_mode()
            op_mode = mode == "op"
            if op_mode:
                base["opcodes"] = True
            res = forkpool.fork_call(exec_scenario, dict(base, record_sites=[[0, 0], [1, 0]]), timeout=120)
            if "_harness" in res:
                self.harness.append({"sweep": res})
                continue
            na = max([n for (t, j, n) in res["op_events"] if t == 0 and j == 0] or [0])
            all_next = mode == "all"
            # only the all-events mode costs one run per event; the sites mode costs
            # one run per distinct source line, however long a loop runs (a lazy
            # initialiser that walks a 2,800-entry table is exactly what we want)
            cap = self.cfg.get("sweep_max_events", 8000) if all_next else 200_000
            if na <= 0 or na > cap:
                sw["skipped_long"] += 1
                continue
            absorb(base, res, ("sweep-base", pi))
            sw["pairs"] += 1
            self.sweep_bases[pi] = base
            # several distinct twins, results dropped at once: a worker loop that
            # keeps going after a timeout re-uses the addresses the aborted call freed
            twins_a = self.sweep_twins[pi] = [dict(_twin_op(opa, g), keep=False) for _ in range(3)]
            sites = res["sites"].get("0.0", [])
            sites_b = res["sites"].get("1.0", [])
            if op_mode:
                sw["pairs_in_opcode_mode"] += 1
            sw["line_events_of_A_total"] += na
            sw["distinct_sites_total"] += len(sites)
            all_mode = mode == "all"
            if all_mode:
                sw["pairs_in_all_events_mode"] += 1
                points = list(range(1, na + 1, stride))
            elif op_mode:
                points = sorted(set(x[0] for x in sites))
            elif not self.cfg.get("sweep_lasts", True):
                # quick tier: first execution of every line, plus the last execution
                # of lines that run only a few times (short loops are where state is
                # published in pieces)
                points = sorted(set([x[0] for x in sites] + [x[1] for x in sites if x[2] <= 4]))
            else:
                points = sorted(set([x[0] for x in sites] + [x[1] for x in sites]))
            cpoints = sorted(set(x[0] for x in sites)) if not all_mode else points
            if op_mode:
                cpoints = cpoints[::4]
            elif not all_mode:
                cpoints = cpoints[pi % self.cfg.get("sweep_cancel_stride", 1)::self.cfg.get("sweep_cancel_stride", 1)]
            # double pre-emption: A stops at k1, B runs until k2, A finishes, B resumes
            firsts_a = sorted(set(x[0] for x in sites))
            firsts_b = sorted(set(x[0] for x in sites_b))
            dpoints = []
            for _ in range(self.cfg.get("sweep_double", 0) if firsts_a and firsts_b else 0):
                dpoints.append((firsts_a[g.randrange(len(firsts_a))], firsts_b[g.randrange(len(firsts_b))]))
            done = [0, 0, 0]

            def jobs():
                for k in points:
                    yield dict(base, table=[[0, 0, k, "switch", 1]])
                for (k1, k2) in dpoints:
                    yield dict(base, table=[[0, 0, k1, "switch", 1], [1, 0, k2, "switch", 0]], double=True)
                # after the aborted call: a near-twin of A (same length and token
                # count, one digit changed -- what an identity- or shape-keyed leftover
                # of the aborted call would be confused with), A itself, then B
                # two shapes of "what the worker does next", alternating over the points:
                # the same document again (a retry), or near-twins first (other work)
                retry = dict(base, threads=[[opa, dict(opa), opb, {"op": "RC"}]], exits=[], after_cancel="retry")
                other = dict(base, threads=[[opa] + twins_a + [dict(opa), opb, {"op": "RC"}]], exits=[],
                             after_cancel="twins")
                for ci, k in enumerate(cpoints):
                    # every second point: the failure is a MemoryError raised at that
                    # line (an allocation that fails) instead of an asynchronous
                    # BaseException -- a handler that swallows it makes the call
                    # *return*, and what it returns is judged
                    yield dict(retry, table=[[0, 0, k, "cancel", None]],
                               **({"cancel_exc": "MemoryError"} if (ci + pi) % 2 else {}))
                    if ci % 3 == pi % 3:
                        yield dict(other, table=[[0, 0, k, "cancel", None]])

            def got(i, scn, r):
                if "_harness" in r:
                    self.harness.append({"sweep_run": r})
                    return
                if scn.get("double"):
                    done[2] += 1
                    sw["double_preemption_runs"] += 1
                    absorb(scn, r, ("sweep2", pi, scn["table"][0][2], scn["table"][1][2]))
                elif len(scn["threads"]) > 1:
                    done[0] += 1
                    sw["preemption_runs"] += 1
                    absorb(scn, r, ("sweep", pi, scn["table"][0][2]))
                else:
                    done[1] += 1
                    sw["cancellation_runs"] += 1
                    if scn.get("cancel_exc"):
                        sw["of_which_injected_MemoryError"] = sw.get("of_which_injected_MemoryError", 0) + 1
                    absorb(scn, r, ("cancel-sweep", pi, scn["table"][0][2], scn.get("after_cancel"), scn.get("cancel_exc")))

            forkpool.run_jobs(jobs(), exec_scenario, workers=_cpu(), timeout=90, on_result=got,
                              deadline=t_end if sw["pairs"] > 2 else t_hard,
                              stop=lambda: len(self.suspects) >= 40)
            if done[0] == len(points):
                sw["complete_preemption_sweeps"] += 1
            if done[1] >= len(cpoints):
                sw["complete_cancellation_sweeps"] += 1
            if len(sw["samples"]) < 2:
                sw["samples"].append({"A": _op_brief(opa), "B": _op_brief(opb), "line_events_of_A": na,
                                      "distinct_source_lines_of_A": len(sites),
                                      "mode": ("first+last execution of every bytecode offset" if op_mode else
                                               "all events" if all_mode else "first+last execution of every line"),
                                      "preemption_points_run": done[0], "cancellation_points_run": done[1]})

    # -- phase A3: isolated baselines ----------------------------------------------
    def phase_baselines(self):
        """Every key observed so far is evaluated once more alone, in a fresh
        child of the pristine parent (no threads, no history, no shim).  A key
        that was only ever observed *inside* histories or interleavings thereby
        gets a clean reference value; without it a history-dependent outcome
        seen once would have nothing to disagree with."""
        deadline = time.monotonic() + self.cfg["base_s"]
        todo = sorted(self.key_ops.items())
        self.baselines = {"keys": len(todo), "evaluated": 0, "disagreements": 0}

        def got(i, job, res):
            kd, op = todo[i]
            if "_harness" in res:
                self.harness.append({"baseline": res})
                return
            self.baselines["evaluated"] += 1
            self.baseline_cache[kd] = res
            cur = self.F.get(kd)
            if not self.observe(kd, res["od"], ("baseline", kd), "isolated"):
                self.baselines["disagreements"] += 1
                sus = self.suspects[-1]
                sus["op"] = op
                sus["class"] = "purity"
                sus["polluted"] = cur[1]

        forkpool.run_jobs([op for kd, op in todo], eval_isolated, workers=_cpu(), timeout=120,
                          on_result=got, deadline=deadline, stop=lambda: len(self.suspects) >= 40)

    def phase_knobs(self, atlas):
        """Sweeps with the capacities of module-level caches shrunk to 1 and 2 --
        only when the current tree has such caches (sim/knobs.py)."""
        self.knobs = forkpool.fork_call(_discover_knobs, None, timeout=120)
        if not isinstance(self.knobs, list):
            self.harness.append({"knobs": self.knobs})
            self.knobs = []
        self.sweep_knobs = []
        if not self.knobs:
            return
        main = self.sweep
        for size in (1, 2):
            self._sweep_knob = size
            try:
                self.phase_sweep(atlas)
            finally:
                self._sweep_knob = None
            self.sweep_knobs.append(dict(self.sweep, capacity=size))
        self.sweep = main

    def phase_depth(self, atlas):
        """Stack-depth sweep: seeded documents (references to party names, court
        parentheticals, markup) are extracted with 1 .. N free frames."""
        g = seeds.Streams(seeds.h64(self.root, "depth")).get("gen")
        tg = textgen.Gen(g, atlas)
        ties = [a for a in atlas if a["tie"]]
        ndocs = self.cfg.get("depth_docs", 12)
        frees = list(range(1, self.cfg.get("depth_max", 140)))
        jobs = []
        for i in range(ndocs):
            tg.force_paren = i % 2 == 0
            t = tg.document(n_items=g.randrange(1, 3), frags=None)
            tg.force_paren = False
            if ties and i % 3 == 2:
                t = tg.cite(tg.pick(ties)) + "; " + t
            t = t[:300]
            if i % 4 == 3:
                op = {"op": "H1", "text": "", "markup": tg.markup(t), "clean": ["html", "all_whitespace"]}
            elif i % 4 == 2:
                op = {"op": "H1", "text": t, "ra": True}
            else:
                op = {"op": "H1", "text": t}
            jobs.append({"op": op, "frees": frees})
        self.depth = {"documents": 0, "calls_that_returned": 0, "calls_that_raised_RecursionError": 0,
                      "free_frames": [frees[0], frees[-1]], "disagreements": 0}

        def got(i, job, res):
            if "_harness" in res:
                self.harness.append({"depth": res})
                return
            self.depth["documents"] += 1
            self.depth["calls_that_returned"] += res["returned"]
            self.depth["calls_that_raised_RecursionError"] += res["raised"]
            base = self.baseline(job["op"])
            bad = [o for o in res["obs"] if o["od"] != base["od"]]
            if bad:
                self.depth["disagreements"] += 1
                self.suspects.append({"class": "depth", "op": job["op"], "free": bad[0]["free"],
                                      "frees": [f for f in job["frees"] if f <= bad[0]["free"]]})

        forkpool.run_jobs(jobs, exec_depth, workers=_cpu(), timeout=300, on_result=got,
                          deadline=time.monotonic() + self.cfg.get("depth_s", 30))

    def judge_depth(self, s):
        op = s["op"]
        res = forkpool.fork_call(exec_depth, {"op": op, "frees": s["frees"], "want_full": True}, timeout=300)
        if "_harness" in res:
            self.harness.append({"depth_replay": res})
            return None
        base = forkpool.fork_call(eval_isolated, op, timeout=120)
        bad = [o for o in res["obs"] if o["od"] != base["od"]]
        if not bad:
            return None
        return {"class": "purity", "kind": "depth",
                "signature": {"class": "purity", "how": "stack-depth", "op": op},
                "op": op, "frees": s["frees"], "free_frames_at_disagreement": bad[0]["free"],
                "outcomes": {"isolated": base.get("outcome"), f"with {bad[0]['free']} free frames": bad[0].get("outcome")},
                "note": "a call that returns (does not fail with RecursionError) returns another value when "
                        "few stack frames are left: some failure inside the call is swallowed"}

    def scenario_of(self, prov):
        """Rebuild (and re-execute, to get its explicit schedule) the scenario an
        observation came from."""
        if prov[0] == "sim":
            scn = self.sg.scenario(seeds.run_seed(self.root, prov[1]))
            res = forkpool.fork_call(exec_scenario, scn, timeout=120)
            if "_harness" in res:
                return None
            return to_replayable(scn, res)
        if prov[0] in ("sweep", "sweep2", "sweep-base", "cancel-sweep"):
            base = self.sweep_bases.get(prov[1])
            if base is None:
                return None
            if prov[0] == "sweep-base":
                return dict(base)
            if prov[0] == "sweep":
                return dict(base, table=[[0, 0, prov[2], "switch", 1]])
            if prov[0] == "sweep2":
                return dict(base, table=[[0, 0, prov[2], "switch", 1], [1, 0, prov[3], "switch", 0]])
            opa, opb = base["threads"][0][0], base["threads"][1][0]
            twins = (self.sweep_twins.get(prov[1]) or []) if (len(prov) > 3 and prov[3] == "twins") else []
            extra = {"cancel_exc": prov[4]} if len(prov) > 4 and prov[4] else {}
            return dict(base, threads=[[opa] + twins + [dict(opa), opb, {"op": "RC"}]], exits=[],
                        table=[[0, 0, prov[2], "cancel", None]], **extra)
        return None

    # -- phase B: hash contexts -----------------------------------------------
    def corpus(self, atlas):
        g = seeds.Streams(seeds.h64(self.root, "corpus")).get("gen")
        tg = textgen.Gen(g, atlas)
        oplist = []
        for a in atlas:
            if a["tie"]:
                oplist.append({"op": "H1", "text": a["t"]})
        # every reporter string whose single token carries several candidate
        # editions (their order, the edition guess and the value hash are at stake)
        multi = [a for a in atlas if not a["tie"] and a.get("ned", 0) >= 2 and a["form"] == "full"]
        for a in multi:
            oplist.append({"op": "H1", "text": a["t"] + " (1990)" if g.random() < 0.3 else a["t"]})
        # every reporter string that several editions share, cited with the years
        # at which one of those editions starts or ends (and the years next to
        # them): which edition is guessed there depends on how the year limits are
        # computed -- in every process, whatever its time zone and locale
        from eyecite.tokenizers import EDITIONS_LOOKUP

        nb = 0
        for k in sorted(EDITIONS_LOOKUP):
            eds = EDITIONS_LOOKUP[k]
            if len(eds) < 2:
                continue
            years = set()
            for e in eds:
                for d in (e.start, e.end):
                    if d is not None:
                        years.update((d.year - 1, d.year, d.year + 1))
            years = sorted(years)
            for c in range(0, len(years), 9):
                t = "; ".join(f"{i + 1} {k} {i + 2} ({y})" for i, y in enumerate(years[c:c + 9]))
                op = {"op": "H1", "text": t}
                if nb % 3 == 2:
                    op["ra"] = True
                oplist.append(op)
                nb += 1
        self.boundary_docs = nb
        ties = [a for a in atlas if a["tie"]]
        for i in range(self.cfg["docs"]):
            x = g.random()
            if x < 0.4 and ties:
                fr = [tg.pick(ties) for _ in range(g.randrange(1, 4))]
                t = tg.document(n_items=len(fr), frags=fr)
            else:
                t = tg.document(n_items=g.randrange(1, 6))
            op = {"op": "H1", "text": t}
            y = g.random()
            if y < 0.15:
                op["ra"] = True
            elif y < 0.32:
                op = {"op": "H1", "text": "", "markup": tg.markup(t),
                      "clean": ["html", "all_whitespace"]}
            oplist.append(op)
        # a few subset-tokenizer ops (reference and Hyperscan)
        for i in range(max(4, self.cfg["docs"] // 40)):
            a = tg.pick(ties) if ties and g.random() < 0.7 else tg.pick(tg.full)
            oplist.append({"op": "H2", "text": a["t"], "ext": a["x"],
                           "tok": "hs" if i % 2 else "ref"})
        return oplist

    def phase_hashctx(self, atlas):
        oplist = self.corpus(atlas)
        hs = seeds.Streams(seeds.h64(self.root, "hashctx")).get("hashseed")
        seedlist = [0, 0, 1, 4294967295]  # seed 0 twice: same seed, other process (addresses)
        while len(seedlist) < self.cfg["ctx"]:
            v = hs.randrange(0, 4294967296)
            if v not in seedlist:  # noqa
                seedlist.append(v)
        self.hash_seeds = seedlist
        self.ctx_done = 0
        deadline = time.monotonic() + self.cfg["ctx_s"]
        kds = [seeds.digest(ops.op_key(op)) for op in oplist]

        def got(i, job, res):
            if isinstance(res, dict) and "_harness" in res:
                self.harness.append({"hashctx": job[0], "what": res})
                return
            self.ctx_done += 1
            h = job[0]
            for k, od in enumerate(res):
                if not self.observe(kds[k], od, ("hashseed", h, k), "hashseed", op=oplist[k]):
                    s = self.suspects[-1]
                    s["op"] = oplist[k]
                    s["class"] = "hashseed"

        forkpool.run_jobs([(h, oplist) for h in seedlist], hashctx_batch,
                          workers=_cpu(), timeout=600, on_result=got, deadline=deadline)
        self.ctx_ops = len(oplist)

    # -- phase C: judge suspects ------------------------------------------------
    def confirm_hashseed(self, op, nseeds=48):
        """Evaluate op under real hash seeds; return (a, b) with different
        outcomes or None."""
        hs = [0, 1, 4294967295] + [seeds.h64("confirm", i) % 4294967296 for i in range(nseeds - 3)]
        outs = [None] * len(hs)

        def got(i, job, res):
            outs[i] = res[0] if isinstance(res, list) else None

        forkpool.run_jobs([(h, [op]) for h in hs], hashctx_batch, workers=_cpu(),
                          timeout=120, on_result=got)
        first = None
        for h, od in zip(hs, outs):
            if od is None:
                continue
            if first is None:
                first = (h, od)
            elif od != first[1]:
                return first[0], h
        return None

    def process_variation(self, op, hashseed, n=16):
        outs = [None] * n

        def got(i, job, res):
            outs[i] = res[0] if isinstance(res, list) else None

        forkpool.run_jobs([(hashseed, [op])] * n, hashctx_batch, workers=_cpu(),
                          timeout=120, on_result=got)
        distinct = sorted(set(o for o in outs if o is not None))
        return distinct if len(distinct) > 1 else None

    def minimise_hashseed(self, op, a, b):
        from sim.minimize import Budget, shrink_text

        ca, cb = HashCtx(a), HashCtx(b)
        try:
            field = "text" if op.get("markup") is None else "markup"

            def differs(text):
                o = dict(op)
                o[field] = text
                return ca.ask(o)["od"] != cb.ask(o)["od"]

            if not differs(op.get(field) or ""):
                return None
            text = shrink_text(op.get(field) or "", differs, Budget(400))
            o = dict(op)
            o[field] = text
            fa, fb = ca.ask(o, full=True), cb.ask(o, full=True)
            return o, fa, fb
        finally:
            ca.close()
            cb.close()

    def scenario_violates(self, scn):
        """Set of violation classes a scenario (explicit schedule) exhibits,
        judged against isolated baselines only (self-contained)."""
        res = forkpool.fork_call(exec_scenario, scn, timeout=120)
        if "_harness" in res:
            return set(), res
        classes = set(v[0] for v in res["viol"])
        for (t, j, kd, od) in res["obs"]:
            op = effective_op(scn, res, t, j)
            if self.baseline(op)["od"] != od:
                classes.add("purity")
        return classes, res

    def minimise_scenario(self, scn, cls):
        from sim.minimize import Budget, ddmin

        budget = Budget(260)

        def build(op_ids, table=None, setorder=None, text_map=None):
            keep = set(op_ids)
            threads, remap = [], {}
            for t, th in enumerate(scn["threads"]):
                new = []
                for j, op in enumerate(th):
                    if (t, j) in keep:
                        remap[(t, j)] = len(new)
                        o = dict(op)
                        if text_map and o.get("text") in text_map:
                            o["text"] = text_map[o["text"]]
                        new.append(o)
                threads.append(new)
            tab = []
            for (t, j, k, kind, arg) in (table if table is not None else scn["table"]):
                if (t, j) in remap:
                    tab.append([t, remap[(t, j)], k, kind, arg])
                elif j >= len(scn["threads"][t]):
                    tab.append([t, len(threads[t]), k, kind, arg])
            s = dict(scn)
            s["threads"] = threads
            s["table"] = tab
            if setorder is not None:
                s["setorder"] = setorder
            return s

        all_ops = [(t, j) for t, th in enumerate(scn["threads"]) for j in range(len(th))]
        ok = lambda s: cls in self.scenario_violates(s)[0]
        ops_min = ddmin(all_ops, lambda ids: ok(build(ids)), budget)
        cur = build(ops_min)
        # renumber: build() above already renumbered; continue on `cur`
        scn2 = cur
        table = ddmin(scn2["table"], lambda tb: ok(dict(scn2, table=tb)), budget)
        scn3 = dict(scn2, table=table)
        if scn3.get("setorder", "off") != "off" and budget.take() and ok(dict(scn3, setorder="off")):
            scn3 = dict(scn3, setorder="off")
        # shrink the documents (each distinct text / markup string, longest first);
        # recorded decisions are keyed by line events inside an op, so they are
        # dropped when a text changes unless the scenario is sequential
        from sim.minimize import shrink_text

        strings = []
        for th in scn3["threads"]:
            for o in th:
                for fld in ("text", "markup"):
                    v = o.get(fld)
                    if v and len(v) > 12 and (fld, v) not in strings:
                        strings.append((fld, v))
        strings.sort(key=lambda x: -len(x[1]))
        sequential = not any(x[3] == "switch" for x in scn3["table"])
        for fld, v in strings[:3]:
            if budget.left <= 0 or not sequential:
                break

            def with_text(new, fld=fld, v=v):
                ths = [[dict(o, **{fld: new}) if o.get(fld) == v else o for o in th]
                       for th in scn3["threads"]]
                return dict(scn3, threads=ths)

            small = shrink_text(v, lambda t: ok(with_text(t)), budget)
            if small != v:
                scn3 = with_text(small)
        return scn3

    def judge(self):
        known = report_mod.load_known(PROP)
        seen_sig = set()
        budget_reports = int(os.environ.get("VERIF_MAX_VIOLATIONS", "4"))
        t_judge = time.monotonic()
        for s in self.suspects:
            if len(self.violations) >= budget_reports:
                break
            if time.monotonic() - t_judge > 900:
                self.log("judge: time budget used up; remaining suspects not minimised")
                break
            try:
                v = self.judge_one(s)
            except Exception as e:  # harness trouble while judging
                import traceback

                self.harness.append({"judge": traceback.format_exc()})
                continue
            if v is None:
                continue
            sig = json.dumps(v["signature"], sort_keys=True)
            if sig in seen_sig:
                continue
            seen_sig.add(sig)
            k = report_mod.matches_known(known, v["signature"])
            if k is not None:
                line = f"KNOWN-FINDING: property={PROP} {k.get('description', sig)}"
                if line not in self.known_printed:
                    self.known_printed.append(line)
                    print(line, flush=True)
                continue
            tag = f"{self.verif_seed}-{len(self.violations)}"
            path = report_mod.write_replay(PROP, tag, v)
            v["replay"] = path
            self.violations.append(v)
            print(f"VIOLATION property={PROP} replay={path}", flush=True)
            self.log(f"  {v['class']}: {json.dumps(v['signature'], ensure_ascii=True)[:300]}")

    def judge_one(self, s):
        cls = s["class"]
        if cls == "depth":
            return self.judge_depth(s)
        if cls == "hashseed" or (cls == "purity" and s["a"][1][0] == "hashseed"
                                  and s["b"][1][0] == "hashseed"):
            op = s["op"]
            pair = None
            ha = s["a"][1][1] if s["a"][1][0] == "hashseed" else None
            hb = s["b"][1][1] if s["b"][1][0] == "hashseed" else None
            if ha is not None and hb is not None:
                pair = (ha, hb)
            else:
                pair = self.confirm_hashseed(op)
            if pair is None:
                # one side came from a simulated run: judge that scenario instead
                if "scn" in s:
                    return self.judge_scenario(s["scn"], "purity")
                return None
            m = self.minimise_hashseed(op, *pair)
            if m is None:
                # not a function of the hash seed alone: does the outcome vary
                # between fresh processes with the *same* seed (addresses, ASLR)?
                pv = self.process_variation(op, pair[0])
                if pv is None:
                    self.harness.append({"hashseed_not_reproduced": [op, pair]})
                    return None
                return {"class": "process", "kind": "process",
                        "signature": {"class": "process", "op": op},
                        "op": op, "hashseed": pair[0], "distinct_outcomes": pv,
                        "note": "outcome differs between fresh interpreters started with the same PYTHONHASHSEED (address/ASLR dependent)"}
            o, fa, fb = m
            return {"class": "hashseed", "kind": "hashseed",
                    "signature": {"class": "hashseed", "op": o},
                    "op": o, "hashseeds": list(pair),
                    "contexts": [context_env(pair[0]), context_env(pair[1])],
                    "note": "class 'hashseed' = two fresh interpreters disagree; they differ in PYTHONHASHSEED and, "
                            "derived from it, in locale, time zone and working directory (see contexts)",
                    "outcomes": {str(pair[0]): fa, str(pair[1]): fb}}
        if "scn" in s:
            return self.judge_scenario(s["scn"], cls)
        if s.get("polluted") is not None:
            prov = s["polluted"]
            if prov[0] == "hashseed":
                pair = self.confirm_hashseed(s["op"])
                if pair:
                    m = self.minimise_hashseed(s["op"], *pair)
                    if m:
                        o, fa, fb = m
                        return {"class": "hashseed", "kind": "hashseed",
                                "signature": {"class": "hashseed", "op": o}, "op": o,
                                "hashseeds": list(pair),
                                "outcomes": {str(pair[0]): fa, str(pair[1]): fb}}
                return None
            scn = self.scenario_of(prov)
            if scn is not None:
                return self.judge_scenario(scn, "purity")
        return None

    def judge_scenario(self, scn, cls):
        classes, res = self.scenario_violates(scn)
        if "_harness" in (res or {}):
            self.harness.append({"replay_failed": res})
            return None
        if cls not in classes:
            # the disagreement was with another run's observation; the isolated
            # baseline sides with this scenario, so the other side is deviant
            return None
        m = self.minimise_scenario(scn, cls)
        if m.get("setorder", "off") != "off":
            # needs the set-order shim: confirm under real hash seeds first
            confirmed = None
            for th in m["threads"]:
                for op in th:
                    if op["op"] in JUDGED:
                        pair = self.confirm_hashseed(op)
                        if pair:
                            confirmed = (op, pair)
                            break
                if confirmed:
                    break
            if not confirmed:
                self.shim_unconfirmed += 1
                return None
            self.shim_confirmed += 1
            mm = self.minimise_hashseed(confirmed[0], *confirmed[1])
            if mm is None:
                return None
            o, fa, fb = mm
            return {"class": "hashseed", "kind": "hashseed",
                    "signature": {"class": "hashseed", "op": o},
                    "op": o, "hashseeds": list(confirmed[1]),
                    "outcomes": {str(confirmed[1][0]): fa, str(confirmed[1][1]): fb},
                    "found_by": "set-order shim, confirmed under real hash seeds"}
        classes, res = self.scenario_violates(dict(m, want_full=True))
        details = {"classes": sorted(classes), "viol": res.get("viol"),
                   "observed": res.get("full")}
        base = {}
        for t, th in enumerate(m["threads"]):
            for j, op in enumerate(th):
                op = effective_op(m, res, t, j)
                if op["op"] in JUDGED:
                    base[f"{t}.{j}"] = self.baseline(op)["outcome"]
        sig_ops = [[_op_brief(o) for o in th] for th in m["threads"]]
        return {"class": cls, "kind": "scenario",
                "signature": {"class": cls, "ops": sig_ops,
                              "switches": len([x for x in m["table"] if x[3] == "switch"]),
                              "cancels": len([x for x in m["table"] if x[3] == "cancel"])},
                "scenario": m, "schedule_digest": res.get("digest"),
                "details": details, "baseline": base}

    # -- evidence ----------------------------------------------------------------
    def evidence(self, atlas, wall):
        c = self.cnt
        nontrivial = sum(1 for kd, k in self.key_ctxkinds.items()
                         if self.key_contexts.get(kd, 0) >= 2 and len(k) >= 1
                         and self.key_contexts[kd] >= 2)
        multi_kind = sum(1 for k in self.key_ctxkinds.values() if len(k) >= 2)
        cov = {
            "evaluations": c["observations"],
            "distinct_nontrivial": nontrivial,
            "rule": ("one evaluation = one judged call of get_citations (default, reference or "
                     "Hyperscan tokenizer) observed in some context: a thread of a baton-scheduled "
                     "run, a position in a call history, under a set-order permutation, after a "
                     "cancellation, or in a fresh interpreter with its own PYTHONHASHSEED. "
                     "distinct_nontrivial counts distinct (text, options) keys observed in at "
                     "least two contexts -- the only ones that can disagree."),
            "samples": self.samples or [{"note": "no multi-thread run in this batch"}],
            "simulated_runs": c["runs"],
            "runs_per_hour": int(c["runs"] / max(wall, 1e-6) * 3600),
            "line_events_preemption_points": c["events"],
            "context_switches": c["switches"],
            "distinct_interleavings": len(self.interleavings),
            "distinct_interleavings_measure": "distinct digests of the (code, line, thread) event sequence incl. switches, over multi-thread runs",
            "threads_per_run": c["threads_hist"],
            "preemption_probability_per_run": c["p_hist"],
            "set_order_mode_per_run": c["setorder_hist"],
            "set_order_iterations_seen": c["shim_iterations"],
            "set_order_iterations_reordered": c["shim_reordered"],
            "single_preemption_sweep": getattr(self, "sweep", None),
            "isolated_baselines": getattr(self, "baselines", None),
            "stack_depth_sweep": getattr(self, "depth", None),
            "capacity_knobs_found_on_this_tree": getattr(self, "knobs", None),
            "sweeps_with_shrunk_capacities": [
                {k: v for k, v in kb.items() if k != "samples"} for kb in getattr(self, "sweep_knobs", [])],
            "edition_boundary_year_documents_in_hash_contexts": getattr(self, "boundary_docs", 0),
            "blocking_lock_acquires_turned_into_scheduler_yields": c.get("lock_waits", 0),
            "forced_window_hits": dict(sorted(self.window_hits.items())),
            "faults_injected": {
                "cancellations_fired": c["cancellations"],
                "stack_exhaustion_calls_that_failed_with_RecursionError": (getattr(self, "depth", None) or {}).get(
                    "calls_that_raised_RecursionError", 0),
                "stack_exhaustion_calls_that_returned_and_were_judged": (getattr(self, "depth", None) or {}).get(
                    "calls_that_returned", 0),
                "cancellation_sites": dict(sorted(self.cancel_sites.items())),
                "hash_contexts_completed": getattr(self, "ctx_done", 0),
                "hash_seeds": getattr(self, "hash_seeds", [])[:16],
            },
            "ops": c["ops_hist"],
            "outcomes_that_are_exceptions": c["raised_outcomes"],
            "earlier_result_rechecks": c["rechecks"],
            "keys_distinct": len(self.F),
            "keys_seen_in_two_context_kinds": multi_kind,
            "hashctx_ops_per_context": getattr(self, "ctx_ops", 0),
            "atlas": atlas_mod.summary(atlas),
            "inconclusive_runs_event_cap": c["overruns"],
            "shim_only_disagreements_confirmed": self.shim_confirmed,
            "shim_only_disagreements_unconfirmed": self.shim_unconfirmed,
            "harness_problems": len(self.harness),
            "simulated_time": "not applicable: the library has no timer, timeout or deadline; logical steps are reported instead",
            "components": {"real": ["eyecite (all modules)", "re", "regex", "pyahocorasick", "lxml",
                                    "fast_diff_match_patch", "libhyperscan", "CPython threads"],
                           "simulated": ["which thread runs next", "set iteration order",
                                         "process hash seed", "cancellation instants", "calendar date",
                                         "free stack frames at the call", "capacities of module-level caches",
                                         "threading.Lock/RLock/Event/Condition waits (yield the baton)",
                                         "locale, time zone and working directory of a fresh interpreter"],
                           "stubbed": []},
            "known_findings_printed": self.known_printed,
        }
        return cov


def _op_brief(o):
    b = {"op": o["op"]}
    for k in ("text", "markup"):
        if o.get(k):
            b[k] = o[k] if len(o[k]) <= 160 else o[k][:160] + "..."
    for k in ("ra", "clean", "tok", "what", "name"):
        if o.get(k):
            b[k] = o[k]
    return b


ASSUMPTIONS = [
    "CPython's sys.settrace line events are the pre-emption points: races inside one source line, inside re/regex/lxml or between C extensions that release the GIL are not explored",
    "a thread switch at a line boundary and an asynchronous exception at a line boundary are always realisable in CPython, so every simulated schedule is a real one",
    "the set-order shim sees only set(...) calls resolved through module globals; its disagreements are reported only after confirmation under real PYTHONHASHSEED values",
    "the calendar is pinned for the whole batch (eyecite reads it at import and in Edition.includes_year)",
    "a call made with few free stack frames may fail with RecursionError (the caller's environment); only calls that return are judged",
    "shrinking the bound of a module-level container or an lru_cache is property-preserving if results do not depend on history -- which is the property itself",
    "sampling, not proof: a clean batch is evidence for the seeds explored",
]

from sim import report as report_mod  # noqa: E402


def run(tier, verif_seed, log=print):
    t0 = time.monotonic()
    ck = Checker(tier, verif_seed, log)
    log(f"[C15] tier={tier} VERIF_SEED={verif_seed} root={ck.root} repo={bootstrap.repo_head()}")
    bootstrap.warm_pattern_caches(log)
    atlas = atlas_mod.build(workers=_cpu())
    log(f"[C15] atlas: {atlas_mod.summary(atlas)} ({time.monotonic() - t0:.1f}s)")
    if os.environ.get("VERIF_C15_ONLY") == "knobs":
        ck.sweep = {}
        ck.phase_knobs(atlas)
        log(f"[C15] knobs: {ck.knobs}; {[(k['capacity'], k['pairs'], k['preemption_runs'], k['cancellation_runs']) for k in ck.sweep_knobs]}")
        ck.phase_baselines()
        ck.judge()
        return report_mod.EXIT_VIOLATION if ck.violations else report_mod.EXIT_OK
    if os.environ.get("VERIF_C15_ONLY") == "depth":
        # development aid (never set by the registered commands): one phase, no evidence
        ck.phase_depth(atlas)
        log(f"[C15] stack-depth sweep: {ck.depth}")
        ck.judge()
        return report_mod.EXIT_VIOLATION if ck.violations else report_mod.EXIT_OK
    started = ck.phase_sim(atlas)
    log(f"[C15] simulated runs: {ck.cnt['runs']} (started {started}), events={ck.cnt['events']}, "
        f"switches={ck.cnt['switches']}, suspects={len(ck.suspects)} ({time.monotonic() - t0:.1f}s)")
    ck.phase_sweep(atlas)
    log(f"[C15] sweeps: {ck.sweep['pairs']} pairs, {ck.sweep['preemption_runs']} single-pre-emption runs, "
        f"{ck.sweep['double_preemption_runs']} double-pre-emption runs, {ck.sweep['pairs_in_opcode_mode']} pairs at bytecode granularity, "
        f"{ck.sweep['cancellation_runs']} single-cancellation runs over {ck.sweep['distinct_sites_total']} "
        f"source lines / {ck.sweep['line_events_of_A_total']} line events, "
        f"suspects={len(ck.suspects)} ({time.monotonic() - t0:.1f}s)")
    ck.phase_depth(atlas)
    log(f"[C15] stack-depth sweep: {ck.depth} ({time.monotonic() - t0:.1f}s)")
    ck.phase_knobs(atlas)
    log(f"[C15] capacity knobs on this tree: {ck.knobs}; sweeps with shrunk capacities: "
        f"{[(k['capacity'], k['pairs'], k['preemption_runs'], k['cancellation_runs']) for k in ck.sweep_knobs]} "
        f"({time.monotonic() - t0:.1f}s)")
    ck.phase_baselines()
    log(f"[C15] isolated baselines: {ck.baselines['evaluated']}/{ck.baselines['keys']} keys, "
        f"disagreements={ck.baselines['disagreements']} ({time.monotonic() - t0:.1f}s)")
    ck.phase_hashctx(atlas)
    log(f"[C15] hash contexts: {ck.ctx_done} x {ck.ctx_ops} ops, suspects={len(ck.suspects)} "
        f"({time.monotonic() - t0:.1f}s)")
    ck.judge()
    wall = time.monotonic() - t0
    cov = ck.evidence(atlas, wall)
    report_mod.write_evidence(PROP, tier, verif_seed, "exploration", cov, ASSUMPTIONS,
                              wall, len(ck.violations))
    if ck.harness:
        log(f"[C15] harness problems: {len(ck.harness)}; first: {json.dumps(ck.harness[0], default=repr)[:1500]}")
    log(f"[C15] done in {wall:.1f}s: violations={len(ck.violations)} "
        f"known={len(ck.known_printed)} keys={len(ck.F)}")
    if ck.violations:
        return report_mod.EXIT_VIOLATION
    if ck.harness and (ck.cnt["runs"] == 0 or len(ck.harness) > max(3, ck.cnt["runs"] // 50)):
        return report_mod.EXIT_HARNESS
    return report_mod.EXIT_OK


def replay(path, log=print):
    data = json.load(open(path, encoding="utf8"))
    ck = Checker("quick", 0, log)
    if data.get("kind") == "hashseed":
        a, b = data["hashseeds"]
        ca, cb = HashCtx(a), HashCtx(b)
        try:
            fa, fb = ca.ask(data["op"], full=True), cb.ask(data["op"], full=True)
        finally:
            ca.close()
            cb.close()
        log(f"[C15] replay: PYTHONHASHSEED={a} -> {fa['od'][:16]}  PYTHONHASHSEED={b} -> {fb['od'][:16]}")
        if fa["od"] != fb["od"]:
            log(json.dumps({"op": data["op"], str(a): fa.get("outcome"), str(b): fb.get("outcome")},
                           ensure_ascii=True, default=repr)[:3000])
            print(f"VIOLATION property={PROP} replay={path}", flush=True)
            return report_mod.EXIT_VIOLATION
        log("[C15] replay: not reproduced on this tree")
        return report_mod.EXIT_OK
    if data.get("kind") == "depth":
        # the run's children inherit warmed re/regex module caches; how deep a
        # call goes depends on them, so the replay starts from the same state
        bootstrap.warm_pattern_caches(log)
        v = ck.judge_depth({"op": data["op"], "frees": data["frees"]})
        if v is not None:
            log(json.dumps({"op": data["op"], "outcomes": v["outcomes"]}, ensure_ascii=True, default=repr)[:3000])
            print(f"VIOLATION property={PROP} replay={path}", flush=True)
            return report_mod.EXIT_VIOLATION
        log("[C15] replay: not reproduced on this tree")
        return report_mod.EXIT_OK
    if data.get("kind") == "process":
        pv = ck.process_variation(data["op"], data.get("hashseed", 0), n=24)
        if pv:
            log(f"[C15] replay: {len(pv)} distinct outcomes over 24 fresh interpreters with PYTHONHASHSEED={data.get('hashseed', 0)}")
            print(f"VIOLATION property={PROP} replay={path}", flush=True)
            return report_mod.EXIT_VIOLATION
        log("[C15] replay: not reproduced on this tree")
        return report_mod.EXIT_OK
    scn = data["scenario"]
    classes, res = ck.scenario_violates(dict(scn, want_full=True))
    if "_harness" in (res or {}):
        log(f"[C15] replay: harness problem {res}")
        return report_mod.EXIT_HARNESS
    log(f"[C15] replay: schedule digest {res.get('digest')} (recorded {data.get('schedule_digest')}), "
        f"classes={sorted(classes)}")
    if data["class"] in classes:
        log(json.dumps({"viol": res.get("viol"), "observed": res.get("full")},
                       ensure_ascii=True, default=repr)[:3000])
        print(f"VIOLATION property={PROP} replay={path}", flush=True)
        return report_mod.EXIT_VIOLATION
    log("[C15] replay: not reproduced on this tree")
    return report_mod.EXIT_OK
