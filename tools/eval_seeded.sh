#!/bin/bash
# usage: tools/eval_seeded.sh <worktree> <change-name> <C14|C15>
# Confirms a sub-agent's change in its scratch worktree (patch applies, 50 tests
# pass with it, demo fails with it and passes without), then runs the quick check.
set -u
SELF=$(cd "$(dirname "$0")" && pwd)
WT="$1"; NAME="$2"; PROP="$3"
D="$WT/out/$NAME"
cd "$WT" || exit 9
git checkout -q -- . ; git status --short | grep -v "^?? out/" 
git apply "$D/patch.diff" || { echo "APPLY-FAILED"; exit 3; }
T=$(PYTHONPATH=$WT timeout 900 /venv/bin/python -m pytest -q -p no:cacheprovider 2>&1 | tail -1)
PYTHONPATH=$WT timeout 600 /venv/bin/python "$D/demo.py" > /tmp/demo-with.out 2>&1; RC_WITH=$?
git checkout -q -- .
PYTHONPATH=$WT timeout 600 /venv/bin/python "$D/demo.py" > /tmp/demo-without.out 2>&1; RC_WITHOUT=$?
echo "## $NAME: tests=[$T] demo_with=$RC_WITH demo_without=$RC_WITHOUT"
tail -3 /tmp/demo-with.out | cut -c1-300
"$SELF/run_mutant.sh" "$D/patch.diff" "$PROP" quick
