#!/bin/bash
# Runs every self-made mutant (selfmut/*/patch.diff) through the pinned tests and
# the quick check of its property.  Expected: tests pass; check exits 1 for
# breaking mutants and 0 for the property-preserving rewrites (ok-*).
# usage: tools/sensitivity.sh [name-filter] ; results in /tmp/sensitivity.log
set -u
FILTER="${1:-}"
LOG=${SENS_LOG:-/tmp/sensitivity.log}
: > $LOG
for d in "$(cd "$(dirname "$0")/.." && pwd)"/selfmut/*${FILTER}*/; do
  name=$(basename $d); prop=$(cat $d/prop)
  W=/dev/shm/eyecite-sens-$$
  rm -rf $W; mkdir -p $W
  git -C /repo archive HEAD | tar -x -C $W
  (cd $W && patch -p1 -s < $d/patch.diff) || { echo "$name PATCH-FAILED" | tee -a $LOG; rm -rf $W; continue; }
  t=$(cd $W && PYTHONPATH=$W timeout 900 /venv/bin/python -m pytest -q -p no:cacheprovider -x 2>&1 | tail -1)
  rm -rf $W
  out=$("$(dirname "$0")/run_mutant.sh" $d/patch.diff $prop quick 2>&1)
  rc=$(echo "$out" | grep -o "exit=[0-9]*" | head -1)
  case $name in ok-*) want="exit=0";; *) want="exit=1";; esac
  verdict=OK; [ "$rc" != "$want" ] && verdict=UNEXPECTED
  echo "$verdict $name $prop tests=[$t] $rc (want $want)" | tee -a $LOG
  echo "$out" | sed 's/^/      /' >> $LOG
done
