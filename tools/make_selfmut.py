#!/usr/bin/env python3
"""Self-made sensitivity mutants (DESIGN section 7): each breaks C14 or C15 while
the 50 pinned tests still pass.  Generates /verif/selfmut/<name>/patch.diff from
string replacements against /repo HEAD (in a scratch copy under /dev/shm)."""
import os
import shutil
import subprocess
import sys

HERE = os.path.dirname(os.path.dirname(os.path.abspath(__file__)))
OUT = os.path.join(HERE, "selfmut")

MUTANTS = [
    # ---- C15 ----------------------------------------------------------------
    ("c15-extractors-set", "C15", [("eyecite/tokenizers.py",
      '''        return sorted(
            unique_extractors, key=lambda e: self.extractor_order[id(e)]
        )
''', '''        return unique_extractors
''')]),
    ("c15-merge-setcomp", "C15", [("eyecite/models.py",
      '''                self.exact_editions = tuple(dict.fromkeys(self.exact_editions))
                self.variation_editions = tuple(
                    dict.fromkeys(self.variation_editions)
                )
''', '''                self.exact_editions = tuple({e for e in self.exact_editions})
                self.variation_editions = tuple(
                    {e for e in self.variation_editions}
                )
''')]),
    ("c15-tokenize-memo", "C15", [("eyecite/tokenizers.py",
      '''        citation_tokens = []
        all_tokens: Tokens = []
        tokens = sorted(
''', '''        cache = self.__dict__.setdefault("_tokenize_cache", {})
        if text in cache:
            return cache[text]
        citation_tokens = []
        all_tokens: Tokens = []
        cache[text] = (all_tokens, citation_tokens)
        tokens = sorted(
''')]),
    ("c15-tokens-on-instance", "C15", [("eyecite/tokenizers.py",
      '''        citation_tokens = []
        all_tokens: Tokens = []
        tokens = sorted(
            self.extract_tokens(text), key=lambda m: (m.start, -m.end)
        )
''', '''        # reuse the buffers between calls to avoid reallocating
        self._citation_tokens = citation_tokens = []
        self._all_tokens = all_tokens = []
        tokens = sorted(
            self.extract_tokens(text), key=lambda m: (m.start, -m.end)
        )
        citation_tokens = self._citation_tokens
        all_tokens = self._all_tokens
''')]),
    ("c15-clean-steps-append", "C15", [("eyecite/models.py",
      '''        if self.markup_text != "":
            if "html" not in self.clean_steps:
''', '''        if self.markup_text != "" and self.clean_steps is not None:
            if "all_whitespace" not in self.clean_steps:
                # markup always needs whitespace normalisation
                self.clean_steps.append("all_whitespace")
        if self.markup_text != "":
            if "html" not in self.clean_steps:
''')]),
    ("c15-compiled-regex-race", "C15", [("eyecite/models.py",
      '''        if not hasattr(self, "_compiled_regex"):
            self._compiled_regex = re.compile(self.regex, flags=self.flags)
        return self._compiled_regex
''', '''        if not hasattr(self, "_compiled_regex"):
            self._compiled_regex = None
            self._compiled_regex = re.compile(self.regex, flags=self.flags)
        return self._compiled_regex
''')]),
    ("c15-sort-by-hash", "C15", [("eyecite/tokenizers.py",
      '''            self.extract_tokens(text), key=lambda m: (m.start, -m.end)
''', '''            self.extract_tokens(text),
            key=lambda m: (m.start, -m.end, hash(m.data + str(m.groups))),
''')]),
    ("c15-lock-order-inversion", "C15", [("eyecite/helpers.py",
      "import logging\nfrom datetime import date\n", "import logging\nimport threading\nfrom datetime import date\n"),
      ("eyecite/helpers.py",
      '''def filter_citations(citations: List[CitationBase]) -> List[CitationBase]:
''', '''filter_lock = threading.Lock()


def filter_citations(citations: List[CitationBase]) -> List[CitationBase]:
    """Serialise filtering (it logs overlap warnings) -- see _filter_citations."""
    with filter_lock:
        return _filter_citations(citations)


def _filter_citations(citations: List[CitationBase]) -> List[CitationBase]:
'''),
      ("eyecite/find.py",
      "import re\nfrom bisect import bisect_left, bisect_right\n", "import re\nimport threading\nfrom bisect import bisect_left, bisect_right\n"),
      ("eyecite/find.py",
      '''    citations = filter_citations(citations)

    # Remove citations with multiple reporter candidates''', '''    with _reference_lock:
        citations = filter_citations(citations)

    # Remove citations with multiple reporter candidates'''),
      ("eyecite/find.py",
      '''    if len(document.plain_text) <= citation.span()[-1]:
        return []
    if not isinstance(citation, FullCaseCitation):
        return []
''', '''    if len(document.plain_text) <= citation.span()[-1]:
        return []
    if not isinstance(citation, FullCaseCitation):
        return []
    if citation.metadata.resolved_case_name_short and not document.markup_text:
        # second pass of the two-step flow: callers run it from worker threads
        # while other documents are being filtered
        from eyecite.helpers import filter_lock

        with filter_lock:
            with _reference_lock:
                return extract_pincited_reference_citations(
                    citation, document.plain_text
                )
'''),
      ("eyecite/find.py",
      '''def get_citations(
    plain_text: str = "",''', '''_reference_lock = threading.Lock()


def get_citations(
    plain_text: str = "",''')]),
    # ---- C14 ----------------------------------------------------------------
    ("c14-only-invalid-error", "C14", [("eyecite/tokenizers.py",
      "                    except hyperscan.error:\n", "                    except hyperscan.InvalidError:\n")]),
    ("c14-no-optional-mb-rewrite", "C14", [("eyecite/tokenizers.py",
      '''                if long_chars:
                    regex = re.sub(
''', '''                if long_chars and False:
                    regex = re.sub(
''')]),
    ("c14-fingerprint-without-flags", "C14", [("eyecite/tokenizers.py",
      '''                    str(expressions).encode("utf8") + str(flags).encode("utf8")
''', '''                    str(expressions).encode("utf8")
''')]),
    ("c14-no-widening", "C14", [("eyecite/tokenizers.py",
      '''            while 0 < start < text_len and text_bytes[start] & 0xC0 == 0x80:
                start -= 1
            while end < text_len and text_bytes[end] & 0xC0 == 0x80:
                end += 1
''', '''''')]),
    ("c14-substring-rematch", "C14", [("eyecite/tokenizers.py",
      '''                m = extractor.compiled_regex.match(text, start)
                if m and m.end() == end:
                    yield extractor.get_token(m)
''', '''                m = extractor.compiled_regex.match(text[start:end])
                if m:
                    yield extractor.get_token(m, offset=start)
''')]),
    ("c14-skip-small-cache", "C14", [("eyecite/tokenizers.py",
      '''                if cache.exists():
                    cache_bytes = cache.read_bytes()
''', '''                if cache.exists():
                    cache_bytes = cache.read_bytes()
                    if len(cache_bytes) < 32:
                        raise ValueError("hyperscan cache file is too short")
''')]),
    ("ok-c14-write-if-size-differs", "C14", [("eyecite/tokenizers.py",
      '''                if cache:
                    cache.write_bytes(hyperscan.dumpb(hyperscan_db))
''', '''                if cache:
                    data = hyperscan.dumpb(hyperscan_db)
                    if not cache.exists() or cache.stat().st_size != len(data):
                        cache.write_bytes(data)
''')]),
    # ---- property-preserving rewrites: the checks must stay silent -----------
    ("ok-c14-atomic-write", "C14", [("eyecite/tokenizers.py",
      "import hashlib\nimport re\n", "import hashlib\nimport os\nimport re\n"),
      ("eyecite/tokenizers.py",
      '''                if cache:
                    cache.write_bytes(hyperscan.dumpb(hyperscan_db))
''', '''                if cache:
                    tmp = cache.with_name(f"{cache.name}.tmp{os.getpid()}")
                    with open(tmp, "wb") as f:
                        f.write(hyperscan.dumpb(hyperscan_db))
                        f.flush()
                        os.fsync(f.fileno())
                    os.replace(tmp, cache)
''')]),
    ("ok-c14-flock", "C14", [("eyecite/tokenizers.py",
      "import hashlib\nimport re\n", "import fcntl\nimport hashlib\nimport re\n"),
      ("eyecite/tokenizers.py",
      '''                cache_dir.mkdir(exist_ok=True)
                cache = cache_dir / fingerprint
''', '''                cache_dir.mkdir(exist_ok=True)
                cache = cache_dir / fingerprint
                lock_file = open(cache_dir / ".lock", "w")
                fcntl.flock(lock_file, fcntl.LOCK_EX)
'''),
      ("eyecite/tokenizers.py",
      '''            self._db = hyperscan_db

        return self._db
''', '''            if self.cache_dir is not None:
                fcntl.flock(lock_file, fcntl.LOCK_UN)
                lock_file.close()
            self._db = hyperscan_db

        return self._db
''')]),
    ("ok-c15-extractors-tuple", "C15", [("eyecite/tokenizers.py",
      '''        return sorted(
            unique_extractors, key=lambda e: self.extractor_order[id(e)]
        )
''', '''        return tuple(
            sorted(unique_extractors, key=lambda e: self.extractor_order[id(e)])
        )
''')]),
    ("ok-c15-lock-compiled-regex", "C15", [("eyecite/models.py",
      "import re\nfrom collections import UserString\n", "import re\nimport threading\nfrom collections import UserString\n"),
      ("eyecite/models.py",
      '''@dataclass
class TokenExtractor:
''', '''_compile_lock = threading.Lock()


@dataclass
class TokenExtractor:
'''),
      ("eyecite/models.py",
      '''        if not hasattr(self, "_compiled_regex"):
            self._compiled_regex = re.compile(self.regex, flags=self.flags)
        return self._compiled_regex
''', '''        if not hasattr(self, "_compiled_regex"):
            with _compile_lock:
                if not hasattr(self, "_compiled_regex"):
                    self._compiled_regex = re.compile(
                        self.regex, flags=self.flags
                    )
        return self._compiled_regex
''')]),
    ("ok-c15-lock-get-citations", "C15", [("eyecite/find.py",
      "import re\nfrom bisect import bisect_left, bisect_right\n", "import re\nimport threading\nfrom bisect import bisect_left, bisect_right\n"),
      ("eyecite/find.py",
      '''    document.tokenize(tokenizer=tokenizer)
''', '''    with _tokenize_lock:
        document.tokenize(tokenizer=tokenizer)
'''),
      ("eyecite/find.py",
      '''def get_citations(
    plain_text: str = "",''', '''_tokenize_lock = threading.RLock()


def get_citations(
    plain_text: str = "",''')]),
]


def main():
    base = "/dev/shm/eyecite-selfmut-src"
    shutil.rmtree(base, ignore_errors=True)
    os.makedirs(base)
    subprocess.run(f"git -C /repo archive HEAD | tar -x -C {base}", shell=True, check=True)
    subprocess.run(["git", "init", "-q"], cwd=base, check=True)
    subprocess.run("git add -A && git -c user.email=a@b -c user.name=x commit -qm base", shell=True, cwd=base, check=True)
    os.makedirs(OUT, exist_ok=True)
    for name, prop, edits in MUTANTS:
        for path, old, new in edits:
            p = os.path.join(base, path)
            s = open(p, encoding="utf8").read()
            if old not in s:
                print(f"!! {name}: anchor not found in {path}", file=sys.stderr)
                continue
            open(p, "w", encoding="utf8").write(s.replace(old, new, 1))
        d = os.path.join(OUT, name)
        os.makedirs(d, exist_ok=True)
        diff = subprocess.run(["git", "diff"], cwd=base, capture_output=True, text=True).stdout
        open(os.path.join(d, "patch.diff"), "w").write(diff)
        open(os.path.join(d, "prop"), "w").write(prop + "\n")
        subprocess.run(["git", "checkout", "-q", "--", "."], cwd=base, check=True)
        print(name, prop, len(diff.splitlines()), "lines")
    shutil.rmtree(base, ignore_errors=True)


if __name__ == "__main__":
    main()
