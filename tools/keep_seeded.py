#!/usr/bin/env python3
"""Copy a confirmed sub-agent change into /verif/seeded/<id>/ (patch.diff, demo.py,
notes.md) and write meta.json.

usage: keep_seeded.py <id> <worktree> <change-name> <property> <needs> <tests> <demo_with> <demo_without> <detected-by>
"""
import json
import os
import shutil
import sys

HERE = os.path.dirname(os.path.dirname(os.path.abspath(__file__)))


def main():
    sid, wt, name, prop, needs, tests, dw, dwo, detected = sys.argv[1:10]
    src = os.path.join(wt, "out", name)
    dst = os.path.join(HERE, "seeded", sid)
    os.makedirs(dst, exist_ok=True)
    for f in ("patch.diff", "demo.py", "notes.md"):
        if os.path.exists(os.path.join(src, f)):
            shutil.copy(os.path.join(src, f), os.path.join(dst, f))
    meta = {
        "id": sid,
        "name": name,
        "property": prop,
        "origin": "independent sub-agent given only the property text and a scratch worktree of /repo at 4171f37",
        "needs_to_manifest": needs,
        "confirmed_by_me": {
            "how": "tools/eval_seeded.sh: git apply patch.diff in the scratch worktree, pinned test suite, demo.py with and without the change",
            "tests_with_change": tests,
            "demo_exit_with_change": int(dw),
            "demo_exit_without_change": int(dwo),
        },
        "detection": json.loads(detected),
        "apply": "git -C /repo apply /verif/seeded/%s/patch.diff ; <run checks> ; git -C /repo checkout -- ." % sid,
    }
    with open(os.path.join(dst, "meta.json"), "w") as f:
        json.dump(meta, f, indent=1)
    print("kept", dst)


if __name__ == "__main__":
    main()
