#!/bin/bash
# Runs every kept change (seeded/*/patch.diff, selfmut/*/patch.diff) through the
# quick check of its property against a scratch copy of /repo HEAD, and writes a
# table to $1 (default /tmp/regression.txt).  Expected exit: 1 for S* and the
# breaking self-made mutants, 0 for X* (rejected) and ok-* (property-preserving).
OUT="${1:-/tmp/regression.txt}"
SELF=$(cd "$(dirname "$0")" && pwd)
ROOT=$(cd "$SELF/.." && pwd)
echo "# regression of kept changes against /repo $(git -C /repo rev-parse --short HEAD), checks at $(git -C $ROOT rev-parse --short HEAD), $(date -u +%FT%TZ)" > "$OUT"
for d in "$ROOT"/seeded/*/ "$ROOT"/selfmut/*/; do
  name=$(basename "$d"); prop=$(cat "$d/prop" | head -1 | cut -d' ' -f1)
  case "$name" in X*|ok-*) want=0;; S28-*) want=0;; *) want=1;; esac
  t0=$(date +%s)
  out=$(VERIF_MAX_VIOLATIONS=1 "$SELF/run_mutant.sh" "$d/patch.diff" "$prop" quick 2>&1)
  rc=$(echo "$out" | grep -o "exit=[0-9]*" | head -1 | cut -d= -f2)
  cls=$(echo "$out" | grep -E '^\s+(\{|purity|hashseed|result_modified|input_modified|process)' | head -1 | cut -c1-110)
  v=OK; [ "$rc" != "$want" ] && v=UNEXPECTED
  echo "$v $name $prop exit=$rc want=$want $(( $(date +%s) - t0 ))s $cls" | tee -a "$OUT"
done
