#!/bin/bash
# usage: tools/run_mutant.sh <patch.diff> <C14|C15> [tier] [extra env...]
# Applies the patch to a scratch copy of /repo under /dev/shm, runs the check
# against it (VERIF_REPO), removes the copy.  Evidence/replays go to a scratch
# directory, never to /verif/evidence.
set -u
PATCH="$(readlink -f "$1")"; PROP="$2"; TIER="${3:-quick}"
NAME=$(basename "$(dirname "$PATCH")")
W=/dev/shm/eyecite-mut-$$-$NAME
rm -rf "$W"; mkdir -p "$W/out"
git -C /repo archive ${REPO_REV:-HEAD} | tar -x -C "$W" --one-top-level=repo
if ! git -C "$W/repo" apply --unsafe-paths "$PATCH" 2>/dev/null; then
  if ! (cd "$W/repo" && patch -p1 -s --dry-run < "$PATCH" >/dev/null 2>&1); then
    # written against an older base (meta.json "base") that a later fix: commit
    # rewrote: check it against that base instead (S66, S69)
    BASE=$(python3 -c "import json,sys; print(json.load(open(sys.argv[1])).get('base',''))" "$(dirname "$PATCH")/meta.json" 2>/dev/null)
    if [ -n "$BASE" ] && [ -z "${REPO_REV:-}" ]; then
      rm -rf "$W/repo"; git -C /repo archive "$BASE" | tar -x -C "$W" --one-top-level=repo
      echo "(patch does not apply to HEAD; using its base $BASE)"
    fi
  fi
  git -C "$W/repo" apply --unsafe-paths "$PATCH" 2>/dev/null || (cd "$W/repo" && patch -p1 -s < "$PATCH") || { echo "PATCH-FAILED $PATCH"; rm -rf "$W"; exit 3; }
fi
VERIF_MAX_VIOLATIONS="${VERIF_MAX_VIOLATIONS:-2}" VERIF_REPO="$W/repo" VERIF_OUT="$W/out" timeout 3000 /venv/bin/python "$(cd "$(dirname "$0")/.." && pwd)/vcheck.py" "$PROP" --tier "$TIER" > "$W/out/stdout" 2> "$W/out/stderr"
RC=$?
echo "== $NAME $PROP tier=$TIER exit=$RC"
grep -E "^(VIOLATION|KNOWN-FINDING)" "$W/out/stdout" | cut -c1-200
grep -E "^\s+\{|hashseed:|purity:|result_modified|input_modified" "$W/out/stderr" | cut -c1-260 | head -8
tail -2 "$W/out/stderr" | cut -c1-300
if [ -n "${KEEP:-}" ]; then mkdir -p /tmp/mut-out/$NAME-$PROP && cp -r "$W/out/." /tmp/mut-out/$NAME-$PROP/; fi
rm -rf "$W"
exit $RC
