#!/venv/bin/python
"""Entry script of the eyecite deterministic-simulation checks.

  vcheck.py C14|C15 [--tier quick|thorough] [--seed N]
  vcheck.py C14|C15 --replay <file>
  vcheck.py selftest-determinism [--runs N]
  vcheck.py setup

Exit 0: property held on everything explored (possibly after KNOWN-FINDING lines).
Exit 1: a line `VIOLATION property=<id> replay=<path>` per minimised violation.
Exit 2: harness error -- never confused with either of the others.
"""
import argparse
import os
import sys
import traceback

HERE = os.path.dirname(os.path.abspath(__file__))
if HERE not in sys.path:
    sys.path.insert(0, HERE)

from sim import bootstrap  # noqa: E402


def log(*a):
    print(*a, file=sys.stderr, flush=True)


def main():
    if len(sys.argv) > 1 and sys.argv[1] == "_hashctx":
        # fresh interpreter with the PYTHONHASHSEED chosen by the simulator
        bootstrap.pin_clock()
        import c15

        c15.hashctx_server()
        return 0
    if len(sys.argv) > 1 and sys.argv[1] == "_node":
        bootstrap.pin_clock()
        import c14

        return c14.node_main(sys.argv[2:])

    ap = argparse.ArgumentParser()
    ap.add_argument("what")
    ap.add_argument("--tier", default=os.environ.get("VERIF_TIER", "quick"))
    ap.add_argument("--seed", type=int, default=int(os.environ.get("VERIF_SEED", "0") or 0))
    ap.add_argument("--replay")
    ap.add_argument("--runs", type=int, default=0)
    args = ap.parse_args()
    if args.tier not in ("quick", "thorough"):
        args.tier = "quick"

    bootstrap.ensure_hashseed()
    bootstrap.pin_clock()
    os.makedirs(os.path.join(HERE, "evidence"), exist_ok=True)
    os.makedirs(os.path.join(HERE, "replays"), exist_ok=True)

    if args.what == "setup":
        bootstrap.import_eyecite()
        import selftest

        return selftest.determinism(runs=6, log=log, quick=True)

    bootstrap.import_eyecite()
    if args.what == "selftest-determinism":
        import selftest

        return selftest.determinism(runs=args.runs or 200, log=log)
    if args.what == "selftest-records":
        import json
        import selftest

        print(json.dumps(selftest.records(args.runs or 40)), flush=True)
        return 0
    if args.what == "C15":
        import c15

        if args.replay:
            return c15.replay(args.replay, log)
        return c15.run(args.tier, args.seed, log)
    if args.what == "C14":
        import c14

        if args.replay:
            return c14.replay(args.replay, log)
        return c14.run(args.tier, args.seed, log)
    log(f"unknown command {args.what}")
    return 2


if __name__ == "__main__":
    try:
        rc = main()
    except SystemExit:
        raise
    except BaseException:
        traceback.print_exc()
        print("HARNESS-ERROR (not a verdict)", file=sys.stderr)
        rc = 2
    sys.stdout.flush()
    sys.stderr.flush()
    os._exit(rc if isinstance(rc, int) else 2)
